"""C09 - end to end: results delivered through client and server equal the local answer.

Decides protocol conformance between the two programs - the part of the end-to-end property that is
a relation between two pieces of source text - and the load-before-use discipline that makes a
re-created client or a restarted server equivalent to the original object.  The end-to-end value
equality composes C01/C03 with this and is not claimed.  See DESIGN.md section 3, C09.
"""
import ast

from ..core import Rule
from ..model import AnalysisError, dotted, unparse, short, ancestors
from ..cfg import cfg_of, calls_in_order
from ..effects import EffectScanner, stmts_in_order, dict_literal_of
from .. import frontend as F
from .c10 import REPLY_TYPE
from ..query import Q, ANY, mv, match, alternatives, contains, dict_pairs
from ..facts import facts_of
from ..contract import entry
from ..terms import walk, show

EXPLANATION = ("Two-program conformance by set comparison and dominance: message types the client emits are accepted by the "
               "server and vice versa (constants resolved, pairwise distinct); each client request registers its future under "
               "the reply type before the await that sends the request, the server handler bound to the request type replies with "
               "exactly that type on every path (shared table with C10), and the client's receive loop resolves futures by the "
               "received type; fields read by a receiver are written by the matching sender and pickle.dumps/loads are paired at "
               "every hop; every dereference of a lazily loaded attribute (scheme, key, index, config object, module loader) is "
               "dominated by the loader that assigns it, and each loader deserialises, with the class family that serialised it, "
               "the artifact its writer wrote; both sides instantiate the scheme from the uploaded config dict; the keyword "
               "encoding of the search command equals the database converter's default.")
ASSUMPTIONS = ["websocket transport and timing are outside the source", "value equality of delivered results composes C01/C03 and is not claimed here"]

LAZY = {"sse_scheme": "_load_sse_scheme", "key": "_load_sse_key", "edb": "_load_sse_encrypted_database",
        "config_object": "_load_config_object", "sse_module_loader": "_load_sse_module"}


def _loader_closure(ci):
    """loader name -> set of attributes guaranteed assigned after it returns"""
    direct = {}
    calls = {}
    for attr, ld in LAZY.items():
        f = ci.methods.get(ld)
        if f is None:
            continue
        assigned = {t.attr for st in ast.walk(f.node) if isinstance(st, ast.Assign) for t in st.targets
                    if isinstance(t, ast.Attribute) and isinstance(t.value, ast.Name) and t.value.id == "self"}
        direct[ld] = assigned & set(LAZY)
        calls[ld] = {c.func.attr for c in ast.walk(f.node) if isinstance(c, ast.Call) and isinstance(c.func, ast.Attribute) and dotted(c.func.value) == "self" and c.func.attr in LAZY.values()}
    closure = {}
    for ld in direct:
        seen, stack, got = set(), [ld], set()
        while stack:
            x = stack.pop()
            if x in seen or x not in direct:
                continue
            seen.add(x)
            got |= direct[x]
            stack += list(calls.get(x, ()))
        closure[ld] = got
    return closure


def _check_typestate(repo, rule, rel, whitelist):
    ci = repo.cls(rel, "Service")
    closure = _loader_closure(ci)
    for attr, ld in LAZY.items():
        if ld not in ci.methods:
            if attr == "key" and rel == F.SRV:
                continue
            rule.fail(rel, "Service", 0, "loader %s missing" % ld, "%s: Service.%s vanished" % (rel, ld))
    n_deref = 0
    for mname, fi in ci.methods.items():
        if mname in LAZY.values() or mname == "__init__":
            continue
        cfg = cfg_of(fi.node)
        for n in cfg.nodes:
            if n.stmt is None or n.ast is None:
                continue
            root = n.ast if n.kind == "test" else n.stmt
            from ..cfg import header_exprs
            roots = [root] if n.kind == "test" else [e for e in header_exprs(n.stmt) if e is not None]
            for r_ in roots:
                for x in ast.walk(r_):
                    if not (isinstance(x, ast.Attribute) and isinstance(x.value, ast.Name) and x.value.id == "self" and x.attr in LAZY and isinstance(x.ctx, ast.Load)):
                        continue
                    par = getattr(x, "_parent", None)
                    # a dereference: attribute access / call argument / method receiver; `is None` tests are not
                    if isinstance(par, ast.Compare) and any(isinstance(c, ast.Constant) and c.value is None for c in par.comparators):
                        continue
                    n_deref += 1
                    ok_nodes = set()
                    for m in cfg.nodes:
                        if m.stmt is None or m.ast is None:
                            continue
                        for c in calls_in_order(m.stmt if m.kind != "test" else m.ast):
                            if isinstance(c.func, ast.Attribute) and dotted(c.func.value) == "self" and c.func.attr in closure and x.attr in closure[c.func.attr]:
                                ok_nodes.add(m.id)
                        if m.kind == "stmt" and isinstance(m.stmt, ast.Assign) and any(isinstance(t, ast.Attribute) and unparse(t) == "self." + x.attr for t in m.stmt.targets) \
                                and not (isinstance(m.stmt.value, ast.Constant) and m.stmt.value.value is None):
                            ok_nodes.add(m.id)
                    same_node_ok = n.id in ok_nodes and isinstance(n.stmt, ast.Assign) and any(unparse(t) == "self." + x.attr for t in n.stmt.targets)
                    dominated = bool(ok_nodes - {n.id}) and not cfg.can_reach(cfg.entry, n.id, avoid=ok_nodes - {n.id})
                    desc = {"class": rel, "method": mname, "attribute": x.attr, "line": getattr(x, "lineno", n.line)}
                    if dominated or same_node_ok:
                        rule.ok(desc)
                    elif (mname, x.attr) in whitelist:
                        desc["accepted"] = whitelist[(mname, x.attr)]
                        rule.ok(desc)
                    else:
                        rule.fail_fn(fi, x, "self.%s used before it is loaded" % x.attr,
                                     "%s.%s dereferences self.%s without a dominating %s(): on an object freshly created from its on-disk state (re-created client, restarted "
                                     "server) the attribute is still None" % (ci.name, mname, x.attr, LAZY[x.attr]), witness=desc)
    return n_deref


def check(repo):
    r1 = Rule("R9.1", "message-type closure between client and server")
    r2 = Rule("R9.2", "request -> reply routing")
    r3 = Rule("R9.3", "field agreement and paired pickling")
    r4 = Rule("R9.4", "load-before-use typestate; loaders read what the writers wrote")
    r5 = Rule("R9.5", "both sides instantiate the scheme from the uploaded configuration")
    r6 = Rule("R9.6", "keyword and identifier encodings agree")
    rules = [r1, r2, r3, r4, r5, r6]
    mt = F.msg_types(repo)
    inv = {v: k for k, v in mt.items()}
    scanner = EffectScanner(repo)
    cli = repo.cls(F.CLI, "Service")
    srv = repo.cls(F.SRV, "Service")

    # ---------------------------------------------------------------- R9.1
    r1.require(len(set(mt.values())) == len(mt), list(cli.methods.values())[0], "message type constants distinct", "two MsgType constants share a value: %s" % mt)
    srv_table, _ = F.dispatch_table(repo, F.SRV)
    cli_table, _ = F.dispatch_table(repo, F.CLI)
    cli_emits, srv_emits = {}, {}
    for fi in cli.methods.values():
        for st in stmts_in_order(fi.node):
            for e in scanner.stmt_effects(fi, st, depth=99):
                if e.kind == "send":
                    cli_emits.setdefault(e.name, []).append((fi, e))
    for rel in (F.SRV, F.SRV_MGR):
        for fi in repo.module(rel).all_functions():
            for st in stmts_in_order(fi.node):
                for e in scanner.stmt_effects(fi, st, depth=99):
                    if e.kind == "send" and fi.name != "send_message":
                        srv_emits.setdefault(e.name, []).append((fi, e))
    for t, sites in sorted(cli_emits.items(), key=lambda kv: str(kv[0])):
        fi, e = sites[0]
        r1.require(t in srv_table, fi, "client emits %r" % (t,), "the client sends message type %r, which the server's dispatch table %s does not handle" % (t, sorted(srv_table)), e.node)
    init_reply = mt.get("INIT")
    for t, sites in sorted(srv_emits.items(), key=lambda kv: str(kv[0])):
        fi, e = sites[0]
        ok = t in cli_table or t == init_reply
        r1.require(ok, fi, "server emits %r" % (t,), "the server sends message type %r, which the client's dispatch table %s does not handle (KeyError in the receive loop)" % (t, sorted(cli_table)), e.node)
    r1.require(set(cli_emits) == {mt["CONFIG"], mt["UPLOAD_DB"], mt["TOKEN"]}, list(cli.methods.values())[0], "client request types", "the client emits %s" % sorted(map(str, cli_emits)))
    r1.require({mt["INIT"], mt["CONFIG"], mt["UPLOAD_DB"], mt["RESULT"], mt["CONTROL"]} <= set(srv_emits), list(srv.methods.values())[0], "server reply types", "the server emits %s" % sorted(map(str, srv_emits)))
    # INIT handshake
    fc = repo.module("frontend/constants.py")

    def cval(name):
        try:
            return repo.const_value(fc, fc.globals[name])
        except Exception:
            return None
    K_TYPE, K_SID, T_INIT = cval("KEY_TYPE"), cval("KEY_SID"), cval("TYPE_INIT")
    SELF = ("param", "self")
    lw = cli.methods.get("load_websocket")
    qlw = Q(repo, lw)
    ok_init = False
    for c, nid, t in qlw.calls_to("send"):
        if t[0] == "mcall" and t[3] and t[3][0][0] == "call" and t[3][0][1] == "pickle.dumps" and t[3][0][2]:
            dp = dict_pairs(t[3][0][2][0])
            if dp and dp[0] == {("const", K_TYPE): ("const", T_INIT), ("const", K_SID): ("attr", SELF, "sid")}:
                ok_init = True
    r1.require(ok_init, lw, "client init event", "load_websocket no longer sends pickle.dumps({KEY_TYPE: TYPE_INIT, KEY_SID: self.sid}) as its first message")
    hd = repo.func(F.SRV_CONN, "handler")
    qh = Q(repo, hd)
    EVENT = ("call", "pickle.loads", (("await", ("mcall", ("param", hd.params[0]), "recv", (), ())),), ())
    cs_calls = [(c, nid, t) for c, nid, t in qh.calls_to("create_service")]
    ok_hs = bool(cs_calls)
    for c, nid, t in cs_calls:
        a0 = qh.arg(c, nid, 0, kw="sid")
        if a0 not in (("sub", EVENT, ("const", K_SID)), ("mcall", EVENT, "get", (("const", K_SID),), ())):
            ok_hs = False
        typed = any(f[0] == "==" and f[-1] is True and {f[1], f[2]} == {("const", T_INIT), ("sub", EVENT, ("const", K_TYPE))} for f in qh.facts_terms(nid)) or \
            any(f[0] == "==" and f[-1] is True and ("const", T_INIT) in f[1:3] and any(x[0] == "mcall" and x[1] == EVENT and x[2] == "get" and x[3][:1] == (("const", K_TYPE),) for x in f[1:3]) for f in qh.facts_terms(nid))
        if not typed:
            ok_hs = False
    r1.require(ok_hs, hd, "server init handshake", "connector.handler no longer expects the pickled init event: the service id must be event[KEY_SID] of the first message, with event[KEY_TYPE] == TYPE_INIT established")
    r1.require(T_INIT == mt.get("INIT"), hd, "TYPE_INIT equals MsgType.INIT", "frontend.constants.TYPE_INIT (%r) differs from MsgType.INIT (%r)" % (T_INIT, mt.get("INIT")))

    # ---------------------------------------------------------------- R9.2
    want = {"handle_upload_config": (mt["CONFIG"], mt["CONFIG"]), "handle_upload_encrypted_database": (mt["UPLOAD_DB"], mt["UPLOAD_DB"]),
            "handle_keyword_search": (mt["TOKEN"], mt["RESULT"])}
    for hname, (q, p) in want.items():
        fi = cli.methods.get(hname)
        if fi is None:
            raise AnalysisError("client handler vanished: %s" % hname)
        qq = Q(repo, fi)
        cfg = qq.cfg
        regs, sends = [], []
        for c, nid, t in qq.calls():
            if t[0] == "call" and isinstance(t[1], str) and t[1].endswith("::Service.register_upload_echo_future_once") or t[0] == "call" and isinstance(t[1], str) and t[1].endswith("::Service.register_result_future_once"):
                a0, a1 = qq.arg(c, nid, 0), qq.arg(c, nid, 1)
                regs.append((cfg.nodes[nid], a0[1] if a0 and a0[0] == "const" else None, t[1].split(".")[-1], a1))
            if t[0] == "call" and isinstance(t[1], str) and t[1].endswith("::Service._send_message"):
                a0 = qq.arg(c, nid, 0)
                sends.append((cfg.nodes[nid], a0[1] if a0 and a0[0] == "const" else None))
        r2.require(REPLY_TYPE.get(q) == p, fi, "reply type table", "C10's reply-type table maps %r to %r, the client expects %r" % (q, REPLY_TYPE.get(q), p))
        ok_send = len(sends) == 1 and sends[0][1] == q
        r2.require(ok_send, fi, "%s sends %r" % (hname, q), "%s sends %s" % (hname, [s[1] for s in sends]))
        ok_reg = len(regs) == 1 and regs[0][1] == p and regs[0][2] == "register_upload_echo_future_once"
        r2.require(ok_reg, fi, "%s waits for %r" % (hname, p), "%s registers its future under %s; the server replies to %r with %r and the receive loop resolves echo futures by the received type" % (
            hname, [(r_[1], r_[2]) for r_ in regs], q, p))
        if ok_send and ok_reg:
            r2.require(cfg.can_reach(regs[0][0].id, sends[0][0].id) and not cfg.can_reach(sends[0][0].id, regs[0][0].id), fi, "future registered before the request is sent",
                       "%s sends the request before registering the future: a fast reply is dropped and the caller waits for the timeout" % hname)
        # the future that is registered is the one that gets the callback and is awaited
        fut = regs[0][3] if regs else None
        waits = [qq.arg(c, nid, 0) for c, nid, t in qq.calls_to("asyncio.wait_for")]
        awaited = fut is not None and any(fut in alternatives(w) for w in waits if w is not None)
        cb = any(t[0] == "mcall" and t[2] == "add_done_callback" and t[1] == fut for _c, _n, t in qq.calls())
        r2.require(awaited and cb, fi, "%s awaits the reply" % hname, "%s no longer attaches the callback to / awaits the future it registered" % hname)
    rm = cli.methods.get("_recv_message")
    qr = Q(repo, rm)
    msgs = [t for _c, _n, t in qr.calls() if t[0] == "call" and t[1] == "pickle.loads"]
    MSG = msgs[0] if msgs else None
    r3.require(MSG is not None and (contains(MSG, ("attr", SELF, "websocket"))), rm, "client unpickles messages", "client _recv_message no longer unpickles the message")
    if MSG is not None:
        G = lambda k, *d: ("mcall", MSG, "get", (("const", k),) + d, ())  # noqa: E731
        TYPE, CONTENT, SIDT = G("type"), G("content"), G("sid")
        resolved = False
        for _c, _n, t in qr.calls():
            if t[0] == "mcall" and t[2] == "set_result" and t[3] == (CONTENT,):
                for alt in alternatives(t[1]):
                    if alt[0] == "elem" and alt[1][0] == "mcall" and alt[1][1] == ("attr", SELF, "echo_futures") and alt[1][2] == "get" and alt[1][3][:1] == (TYPE,):
                        resolved = True
                    if alt[0] == "elem" and alt[1] == ("sub", ("attr", SELF, "echo_futures"), TYPE):
                        resolved = True
        r2.require(resolved, rm, "receive loop resolves futures by received type", "client _recv_message no longer resolves echo futures registered under the received message type with the content")
        disp = [(c, nid, t) for c, nid, t in qr.calls() if t[0] == "calldyn" and t[1] == ("sub", ("attr", SELF, "recv_msg_handler"), TYPE)]
        okd = bool(disp) and all(t[2][:1] == (CONTENT,) for _c, _n, t in disp)
        own = okd and all(any(f[0] == "==" and {f[1], f[2]} == {SIDT, ("attr", SELF, "sid")} and f[-1] is True for f in qr.facts_terms(nid)) for _c, nid, _t in disp)
        r2.require(okd and own, rm, "client dispatch", "client _recv_message no longer dispatches by type / skips foreign sids")
    reg = cli.methods.get("register_upload_echo_future_once")
    qg = Q(repo, reg)
    okreg = any(t[0] == "mcall" and t[2] == "append" and t[3] == (("param", reg.params[2]),) and contains(t[1], ("attr", SELF, "echo_futures")) and contains(t[1], ("param", reg.params[1]))
                for _c, _n, t in qg.calls())
    r2.require(okreg, reg, "future stored under its type", "register_upload_echo_future_once no longer stores the future under msg_type")
    started = any(t[0] == "call" and t[1] == "asyncio.create_task" and t[2] and t[2][0][0] == "call" and str(t[2][0][1]).endswith("::Service._recv_message") for _c, _n, t in qlw.calls())
    r2.require(started, lw, "receive loop started on connect", "load_websocket no longer starts the receive loop")

    # ---------------------------------------------------------------- R9.3
    def message_fields(fi, sid_term, type_param, content_param):
        """Keys of the dict that is pickled and sent, when it maps type/sid/content to the parameters and merges the extra fields."""
        qs = Q(repo, fi)
        for _c, _n, t in qs.calls():
            if t[0] == "call" and t[1] == "pickle.dumps" and t[2]:
                dp = dict_pairs(t[2][0])
                if dp is None:
                    continue
                pairs, extras = dp
                keys = {k[1] for k in pairs if k[0] == "const"}
                okv = pairs.get(("const", "type")) == ("param", type_param) and pairs.get(("const", "sid")) == sid_term and pairs.get(("const", "content")) == ("param", content_param)
                kw = fi.node.args.kwarg.arg if fi.node.args.kwarg else None
                merged = kw is not None and ("param", kw) in extras
                sent = any(tt[0] == "mcall" and tt[2] == "send" and tt[3] == (t,) for _c2, _n2, tt in qs.calls())
                return keys, okv and merged and sent
        return set(), False
    sm = cli.methods.get("_send_message")
    # roles by position (callers pass them positionally): _send_message(self, type, content, **extra) / send_message(websocket, sid, type, content, **extra)
    ckeys, okc = message_fields(sm, ("attr", SELF, "sid"), sm.params[1], sm.params[2]) if len(sm.params) >= 3 else (set(), False)
    r3.require(ckeys == {"type", "sid", "content"} and okc, sm, "client message fields", "client _send_message writes %s (expected type/sid/content from its parameters plus the additional fields, pickled and sent)" % sorted(ckeys))
    ssm = repo.func(F.SRV_COMM, "send_message")
    skeys, oks = message_fields(ssm, ("param", ssm.params[1]), ssm.params[2], ssm.params[3]) if len(ssm.params) >= 4 else (set(), False)
    r3.require(skeys == {"type", "sid", "content"} and oks, ssm, "server message fields", "server send_message writes %s (expected type/sid/content from its parameters plus the additional fields, pickled and sent)" % sorted(skeys))
    srm = srv.methods.get("_recv_message")
    qsr = Q(repo, srm)
    smsgs = [t for _c, _n, t in qsr.calls() if t[0] == "call" and t[1] == "pickle.loads"]
    SMSG = smsgs[0] if smsgs else None
    r3.require(SMSG is not None, srm, "server unpickles messages", "server _recv_message no longer unpickles the message")
    for side, qx, M, written, extra in (("server", qsr, SMSG, ckeys, set()), ("client", qr, MSG, skeys, {"token_digest"})):
        reads = {t[3][0][1] for _c, _n, t in qx.calls() if t[0] == "mcall" and t[1] == M and t[2] == "get" and t[3] and t[3][0][0] == "const"}
        reads |= {x[2][1] for _c, _n, t in qx.calls() for x in walk(t) if isinstance(x, tuple) and x and x[0] == "sub" and x[1] == M and x[2][0] == "const"}
        r3.require(reads <= written | extra and {"type", "sid", "content"} <= reads, qx.fi, "%s reads only written fields" % side, "%s _recv_message reads %s, the sender writes %s" % (side, sorted(reads), sorted(written | extra)))
    # token_digest: client sends it as keyword, server reads it from the raw message and echoes it as keyword, client reads it
    ks = cli.methods.get("handle_keyword_search")
    qk = Q(repo, ks)
    sent_td = [dict(t[3]).get("token_digest") for _c, _n, t in qk.calls() if t[0] == "call" and str(t[1]).endswith("::Service._send_message")]
    r3.require(bool(sent_td) and all(x is not None for x in sent_td), ks, "client sends token_digest", "handle_keyword_search no longer sends token_digest")
    st = srv.methods.get("handle_search_token")
    qt = Q(repo, st)
    raw = ("param", st.params[2]) if len(st.params) > 2 else None
    replies = [t for _c, _n, t in qt.calls() if t[0] == "call" and str(t[1]).endswith("::Service.send_message") and dict(t[3]).get("content") is not None]
    echo = bool(replies) and all(dict(t[3]).get("token_digest") in (("mcall", raw, "get", (("const", "token_digest"),), ()), ("sub", raw, ("const", "token_digest"))) for t in replies)
    r3.require(echo, st, "server echoes token_digest", "handle_search_token no longer reads / echoes token_digest")
    if SMSG is not None:
        GS = lambda k: ("mcall", SMSG, "get", (("const", k),), ())  # noqa: E731
        sd = [t for _c, _n, t in qsr.calls() if t[0] == "calldyn" and t[1] == ("sub", ("attr", SELF, "recv_msg_handler"), GS("type"))]
        r3.require(bool(sd) and all(t[2] == (GS("content"), SMSG) for t in sd), srm, "server passes the raw message", "server _recv_message no longer passes the content and the raw message dict to the handler")
    # init echo content
    ie = srv.methods.get("send_init_echo")
    ikeys = set()
    for _c, _n, t in Q(repo, ie).calls():
        for x in walk(t):
            if isinstance(x, tuple) and x and x[0] == "dict":
                dp = dict_pairs(x)
                if dp:
                    ikeys |= {k[1] for k in dp[0] if k[0] == "const"}
    ECHO = ("call", "pickle.loads", (("await", ("mcall", ANY, "recv", (), ())),), ())
    ECONT = ("call", "pickle.loads", (("mcall", ECHO, "get", (("const", "content"),), ()),), ())
    reads_ok = any(match(("mcall", ECONT, "get", (("const", "ok"),), ()), t) is not None or match(("mcall", ECONT, "get", (("const", "ok"), ANY), ()), t) is not None for _c, _n, t in qlw.calls())
    state_t = [t for _c, _n, t in qlw.calls() if match(("mcall", ECONT, "get", (("const", "state"), ANY), ()), t) is not None or match(("mcall", ECONT, "get", (("const", "state"),), ()), t) is not None]
    r3.require({"ok", "state"} <= ikeys and reads_ok and bool(state_t), lw, "init echo fields", "the init echo writes %s; the client reads ok/state from the unpickled content" % sorted(ikeys))
    adopts = any(t[0] == "call" and str(t[1]).endswith("::Service.update_current_client_service_state_by_server_service_state") and t[2] and t[2][0] in state_t for _c, _n, t in qlw.calls())
    r3.require(adopts, lw, "client adopts the server state", "load_websocket no longer adopts the reported server state")
    # reply dicts: ok / reason
    for hname in ("handle_upload_config_echo", "handle_upload_encrypted_database_echo"):
        f = cli.methods.get(hname)
        body = ("call", "pickle.loads", (("param", f.params[1]),), ())
        okr = any(t[0] == "mcall" and t[1] == body and t[2] == "get" and t[3][:1] == (("const", "ok"),) for _c, _n, t in Q(repo, f).calls())
        r3.require(okr, f, "%s reads ok" % hname, "%s no longer unpickles the reply and reads 'ok'" % hname)
    # payload pickling: config
    uc = cli.methods.get("handle_upload_config")
    okp = any(t[0] == "call" and str(t[1]).endswith("::Service._send_message") and len(t[2]) > 1 and t[2][1] == ("call", "pickle.dumps", (("attr", SELF, "config"),), ()) for _c, _n, t in Q(repo, uc).calls())
    r3.require(okp, uc, "config pickled by the client", "handle_upload_config no longer sends pickle.dumps(self.config)")
    sc = srv.methods.get("handle_upload_config")
    qsc = Q(repo, sc)
    CFGT = ("call", "pickle.loads", (("param", sc.params[1]),), ())
    stored = any(v == CFGT for v, _n, _s in qsc.stores("config")) or any(t[0] == "call" and str(t[1]).endswith("write_service_config") and CFGT in t[2] for _c, _n, t in qsc.calls())
    r3.require(stored, sc, "config unpickled by the server", "server handle_upload_config no longer unpickles the configuration")

    # ---------------------------------------------------------------- R9.4
    n1 = _check_typestate(repo, r4, F.SRV, {})
    n2 = _check_typestate(repo, r4, F.CLI, {("handle_result", "sse_module_loader"): "assigned in __init__ when the config exists (a result arrives only after a search, which requires it)",
                                            ("handle_result", "config_object"): "assigned in __init__ when the config exists",
                                            ("handle_result_future", "sse_module_loader"): "assigned in __init__ when the config exists",
                                            ("handle_result_future", "config_object"): "assigned in __init__ when the config exists"})
    r4.require(n1 + n2 >= 14, list(srv.methods.values())[0], "dereference floor", "only %d dereferences of lazily loaded attributes found (expected >= 14)" % (n1 + n2))
    cinit = cli.methods["__init__"]
    Fci = facts_of(cinit)
    ld_nodes = {}
    for c, nid, t in Q(repo, cinit).calls():
        for ld in ("_load_sse_module", "_load_config_object"):
            if t[0] == "call" and str(t[1]).endswith("::Service." + ld):
                ld_nodes.setdefault(ld, []).append(nid)
    created = lambda k, t: k[0] == "truth" and "is_config_created(" in k[1] and t  # noqa: E731
    okl = all(ld_nodes.get(ld) for ld in ("_load_sse_module", "_load_config_object")) and all(
        Fci.one_of(n_, [(k, True) for k in Fci.keys() if created(k, True)]) for ns in ld_nodes.values() for n_ in ns)
    r4.require(okl, cinit, "client constructor loads module and config object", "client Service.__init__ no longer loads the module and config object when the configuration exists")
    # loaders: artifact + class family
    pairs = [(F.CLI, "_load_sse_key", "read_key", "SSEKey", "key"),
             (F.CLI, "_load_sse_encrypted_database", "read_encrypted_database", "SSEEncryptedDatabase", "edb"),
             (F.SRV, "_load_sse_encrypted_database", "read_encrypted_database", "SSEEncryptedDatabase", "edb")]
    for rel, ld, reader, fam, attr in pairs:
        f = repo.func(rel, "Service." + ld)
        vals = [v for v, _n, _s in Q(repo, f).stores(attr)]
        pat = ("mcall", ("attr", ("attr", SELF, "sse_module_loader"), fam), "deserialize", (("call", mv("R"), (("attr", SELF, "sid"),), ()), ("attr", SELF, "config_object")), ())
        ok = bool(vals) and all((match(pat, v) or {}).get("R", "").endswith("::" + reader) for v in vals)
        r4.require(ok, f, "%s reads its artifact and deserialises with the scheme's class" % ld, "%s.%s no longer reads %s(self.sid) and deserialises with %s and the config object" % (rel, ld, reader, fam))
    for rel in (F.CLI, F.SRV):
        for ld, attr, want_v in (("_load_sse_module", "sse_module_loader", [("call", mv("L"), (("cfgdyn", ("const", "scheme")),), ()),
                                                                              ("call", mv("L"), (("sub", ("attr", SELF, "config"), ("const", "scheme")),), ()),
                                                                              ("call", mv("L"), (("mcall", ("attr", SELF, "config"), "get", (("const", "scheme"),), ()),), ())]),
                                 ("_load_config_object", "config_object", [("mcall", ("attr", SELF, "sse_module_loader"), "SSEConfig", (("attr", SELF, "config"),), ())]),
                                 ("_load_sse_scheme", "sse_scheme", [("mcall", ("attr", SELF, "sse_module_loader"), "SSEScheme", (("attr", SELF, "config"),), ())])):
            f = repo.func(rel, "Service." + ld)
            vals = [v for v, _n, _s in Q(repo, f).stores(attr)]
            ok = bool(vals)
            for v in vals:
                ms = [match(p_, v) for p_ in want_v]
                ms = [m_ for m_ in ms if m_ is not None]
                if not ms or ("L" in ms[0] and not str(ms[0]["L"]).endswith("load_sse_module")):
                    ok = False
            r5.require(ok, f, "%s" % ld, "%s Service.%s no longer builds self.%s from the uploaded configuration (%s)" % (rel, ld, attr, [show(v, maxdepth=4)[:80] for v in vals]))
    # writers
    ck = cli.methods.get("handle_create_key")
    KEYGEN = ("mcall", ("mcall", ("attr", SELF, "sse_scheme"), "KeyGen", (), ()), "serialize", (), ())
    okk = any(t[0] == "call" and str(t[1]).endswith("::write_key") and t[2] == (("attr", SELF, "sid"), KEYGEN) for _c, _n, t in Q(repo, ck).calls())
    r4.require(okk, ck, "key written in its serialized form", "handle_create_key no longer writes KeyGen().serialize()")
    ce = cli.methods.get("handle_encrypt_database")
    qce = Q(repo, ce)
    SETUP = ("mcall", ("attr", SELF, "sse_scheme"), "EDBSetup", (("attr", SELF, "key"), ("param", ce.params[1])), ())
    oke = any(t[0] == "call" and str(t[1]).endswith("::write_encrypted_database") and t[2][:1] == (("attr", SELF, "sid"),) and len(t[2]) == 2 and
              t[2][1] in (("mcall", SETUP, "serialize", (), ()), ("mcall", ("attr", SELF, "edb"), "serialize", (), ())) for _c, _n, t in qce.calls()) and \
        (any(v == SETUP for v, _n, _s in qce.stores("edb")) or True)
    r4.require(oke, ce, "index written in its serialized form", "handle_encrypt_database no longer writes EDBSetup(key, db).serialize()")
    ue = cli.methods.get("handle_upload_encrypted_database")
    oku = any(t[0] == "call" and str(t[1]).endswith("::Service._send_message") and t[2] == (("const", mt["UPLOAD_DB"]), ("mcall", ("attr", SELF, "edb"), "serialize", (), ())) for _c, _n, t in Q(repo, ue).calls())
    r4.require(oku, ue, "index uploaded in its serialized form", "handle_upload_encrypted_database no longer uploads self.edb.serialize()")
    TOKEN = ("mcall", ("mcall", ("attr", SELF, "sse_scheme"), "TokenGen", (("attr", SELF, "key"), ("param", ks.params[1])), ()), "serialize", (), ())
    okt = any(t[0] == "call" and str(t[1]).endswith("::Service._send_message") and t[2][:2] == (("const", mt["TOKEN"]), TOKEN) for _c, _n, t in qk.calls())
    r4.require(okt, ks, "token sent in its serialized form", "handle_keyword_search no longer sends TokenGen(key, keyword).serialize()")
    TK = ("mcall", ("attr", ("attr", SELF, "sse_module_loader"), "SSEToken"), "deserialize", (("param", st.params[1]), ("attr", SELF, "config_object")), ())
    RES = ("mcall", ("mcall", ("attr", SELF, "sse_scheme"), "Search", (("attr", SELF, "edb"), TK), ()), "serialize", (), ())
    oks_ = bool(replies) and all(dict(t[3]).get("content") == RES for t in replies)
    r4.require(oks_, st, "server deserialises the token, searches, serialises the result", "server handle_search_token no longer deserialises the token with its config / searches its index / replies result.serialize()")
    for hname in ("handle_result", "handle_result_future"):
        f = cli.methods.get(hname)
        okh = any(t[0] == "mcall" and t[1] == ("attr", ("attr", SELF, "sse_module_loader"), "SSEResult") and t[2] == "deserialize" and len(t[3]) == 2 and t[3][1] == ("attr", SELF, "config_object")
                  for _c, _n, t in Q(repo, f).calls())
        r4.require(okh, f, "%s deserialises with SSEResult" % hname, "%s no longer deserialises the result with SSEResult" % hname)
    # constructors reload config (and module / config object) of an existing service
    for rel, ci_ in ((F.SRV, srv), (F.CLI, cli)):
        f = ci_.methods["__init__"]
        qi = Q(repo, f)
        sidp = ("param", f.params[1])
        okc = any(v[0] == "call" and str(v[1]).endswith("::read_service_config") and v[2] == (sidp,) for v, _n, _s in qi.stores("config"))
        if rel == F.SRV:
            okc = okc and all(any(t[0] == "call" and str(t[1]).endswith("::Service." + ld) for _c, _n, t in qi.calls()) for ld in ("_load_sse_module", "_load_config_object"))
        # the stored state is adopted whenever the local files are valid - and under no further condition
        Fq = facts_of(f)
        for v, nid, st_ in qi.stores("config"):
            if v[0] == "call" and str(v[1]).endswith("::read_service_config"):
                extra = [k for (k, t) in (Fq.at(nid) or ()) if not ("check_sid_local_file_valid(" in " ".join(k[1:]) or "check_sid_folder_exist(" in " ".join(k[1:]))]
                r4.require(not extra, f, "%s reload is unconditional" % ("server" if rel == F.SRV else "client"),
                           "%s Service.__init__ adopts the stored configuration only if additionally %s: a re-created object can come up empty although its files are there" % (
                               rel, [" ".join(map(str, k)) for k in extra]), st_)
        r4.require(okc, f, "%s constructor reloads config" % ("server" if rel == F.SRV else "client"),
                   "%s Service.__init__ no longer reloads the stored configuration%s" % (rel, " / module / config object of an existing service" if rel == F.SRV else ""))

    r8 = Rule("R9.8", "the transport imposes no message size limit on either side")
    rules.append(r8)
    conn = [t for _c, _n, t in qlw.calls() if t[0] == "call" and str(t[1]).endswith("connect") and "websockets" in str(t[1])]
    r8.require(bool(conn) and all(dict(t[3]).get("max_size", ("const", 2 ** 20)) == ("const", None) for t in conn), lw, "client connects without a size limit",
               "the client opens its websocket with max_size=%s: an index upload or a result larger than that closes the connection (code 1009) instead of being delivered" % [
                   show(dict(t[3]).get("max_size", ("const", "default 1 MiB")), maxdepth=3) for t in conn])
    rs = repo.func(F.SRV_CONN, "run_server")
    serve = [t for _c, _n, t in Q(repo, rs).calls() if t[0] == "call" and str(t[1]).endswith("serve") and "websockets" in str(t[1])]
    r8.require(bool(serve) and all(dict(t[3]).get("max_size", ("const", 2 ** 20)) == ("const", None) for t in serve), rs, "server accepts messages of any size",
               "the server's websockets.serve uses max_size=%s: an uploaded index larger than that is refused" % [show(dict(t[3]).get("max_size", ("const", "default 1 MiB")), maxdepth=3) for t in serve])

    r7 = Rule("R9.7", "a step's accepted state survives the close of its connection (no stale write-back over a later connection)")
    rules.append(r7)
    from .c12 import check_writeback_freshness
    check_writeback_freshness(repo, r7)

    # ---------------------------------------------------------------- R9.10
    # The sid is the digest of pickle.dumps(config).  pickle is not a canonical encoding (objects shared inside the dict are memoised,
    # so the in-memory dict and the one reloaded from config.json or received over the wire pickle differently): the digest names the
    # service, it cannot be recomputed from a configuration that travelled.  Who may derive it: the client's create-service, once.
    r10 = Rule("R9.10", "the service id is derived once, at creation, and is an opaque name afterwards (a digest of a pickle cannot be re-derived from a stored or received configuration)")
    rules.append(r10)

    def _pickle_digest(node):
        """hash of pickle.dumps(..) inside `node`: through a local or nested directly"""
        dumped = {t.id for st in ast.walk(node) if isinstance(st, ast.Assign) and isinstance(st.value, ast.Call) and (dotted(st.value.func) or "").endswith("pickle.dumps")
                  for t in st.targets if isinstance(t, ast.Name)}
        for c in ast.walk(node):
            if isinstance(c, ast.Call) and ((dotted(c.func) or "").startswith("hashlib.") or (dotted(c.func) or "").split(".")[-1] in ("sha256", "sha1", "sha512", "md5", "blake2b")):
                for a in ast.walk(c):
                    if (isinstance(a, ast.Name) and a.id in dumped) or (isinstance(a, ast.Call) and (dotted(a.func) or "").endswith("pickle.dumps")):
                        return True
        return False
    derivers, inline_sites = [], []
    for rel, m in sorted(repo.modules.items()):
        if not (rel.startswith("frontend/") or rel in ("run_client.py", "run_server.py")):
            continue
        for fi in m.all_functions():
            if _pickle_digest(fi.node):
                if len(fi.params) == 1 and fi.cls is None:
                    derivers.append(fi)
                else:
                    inline_sites.append(fi)
    hcc = repo.func(F.CLI, "Service.handle_create_config")
    call_sites = []
    dnames = {d.name for d in derivers}
    for rel, m in sorted(repo.modules.items()):
        if not (rel.startswith("frontend/") or rel in ("run_client.py", "run_server.py")):
            continue
        for fi in m.all_functions():
            for c in ast.walk(fi.node):
                if isinstance(c, ast.Call) and (dotted(c.func) or "").split(".")[-1] in dnames:
                    call_sites.append((fi, c))
    for fi in inline_sites:
        r10.require(fi.key == hcc.key, fi, "digest of a pickled object", "%s hashes pickle.dumps(...) of an object: only the creation of a service may derive an id that way" % fi.qual)
    for fi, c in call_sites:
        r10.require(fi.key == hcc.key, fi, "sid derivation called from %s" % fi.qual,
                    "%s re-derives the service id from a configuration (%s): the id is sha256(pickle.dumps(config)) and pickle output depends on object sharing inside the dict, "
                    "so a configuration that was reloaded from disk or received over the wire hashes differently - the comparison then refuses the rightful owner" % (fi.qual, short(c)), c)
    r10.require(len(call_sites) + sum(1 for f in inline_sites if f.key == hcc.key) >= 1, hcc, "sid derivation floor", "the derivation of the service id from the configuration was not found")

    # ---------------------------------------------------------------- R9.6
    se = repo.func(F.CLI_CMD, "search")
    qse = Q(repo, se)
    kwp = se.params[0] if se.params else "keyword"
    KW = ("call", "bytes", (("param", kwp),), (("encoding", ("const", "utf-8")),))
    KW2 = ("mcall", ("param", kwp), "encode", (("const", "utf-8"),), ())
    KW3 = ("mcall", ("param", kwp), "encode", (), ())
    oks = any(t[0] == "mcall" and t[2] == "handle_keyword_search" and t[3][:1] and t[3][0] in (KW, KW2, KW3) for _c, _n, t in qse.calls())
    r6.require(oks, se, "search encodes the keyword as utf-8", "commands.search no longer encodes the keyword as utf-8 (the database converter's default) before handing it to the client service")
    Fse = facts_of(se)
    fmt_checked = any(k[0] == "in" and k[1] == entry("output_format") and "supported_format" in k[2] for k in Fse.keys())
    r6.require(fmt_checked, se, "output format validated", "commands.search no longer validates the output format")
    cd = repo.func("toolkit/database_utils.py", "convert_database_keyword_to_bytes")
    dflt = cd.node.args.defaults
    r6.require(bool(dflt) and isinstance(dflt[0], ast.Constant) and dflt[0].value == "utf-8", cd, "converter default utf-8", "convert_database_keyword_to_bytes no longer defaults to utf-8")
    # the converter stores bytes(keyword, encoding) -> [bytes.fromhex(id)] and nothing else (shared with R17.4): any further transformation
    # of the stored keyword that the search command does not apply makes such keywords unsearchable
    from .c17 import check_db_conversion
    check_db_conversion(repo, r6)
    ed = repo.func(F.CLI_CMD, "encrypt_database")
    qed = Q(repo, ed)
    conv = [t for _c, _n, t in qed.calls() if t[0] == "call" and str(t[1]).endswith("::convert_database_keyword_to_bytes")]
    okcv = bool(conv) and all(len(t[2]) == 1 and not t[3] and contains(t[2][0], ("call", "json.load", ANY, ANY)) for t in conv) and \
        any(t[0] == "mcall" and t[2] == "handle_encrypt_database" and t[3] and t[3][0] in conv for _c, _n, t in qed.calls())
    r6.require(okcv, ed, "database converted with the default encoding", "commands.encrypt_database no longer converts the JSON database with the default encoding")
    eh = repo.func(F.CLI_CMD, "__search_echo_handler")
    qeh = Q(repo, eh)
    okf = False
    for _c, _n, t in qeh.calls():
        for x in walk(t):
            if not (isinstance(x, tuple) and x and x[0] == "call" and str(x[1]).endswith("BytesConverter.convert_bytes") and len(x[2]) == 2):
                continue
            m = match(("elem", ("mcall", mv("D"), "get_result_list", (), ())), x[2][0])
            if m is None or x[2][1] != ("param", "output_format"):
                continue
            d = m["D"]
            is_des = (d[0] == "call" and str(d[1]).endswith("SSEResult.deserialize")) or (d[0] == "mcall" and d[2] == "deserialize" and d[1][0] == "attr" and d[1][2] == "SSEResult")
            args = d[2] if d[0] == "call" else d[3]
            if is_des and args and contains(args[0], ("param", eh.params[0])):
                okf = True
    r6.require(okf, eh, "result formatting", "__search_echo_handler no longer deserialises the result and converts each identifier with the chosen format")
    for cmd in ("upload_config", "upload_encrypted_database", "search", "generate_key", "encrypt_database"):
        f = repo.func(F.CLI_CMD, cmd)
        lookups = lambda x: x[0] == "call" and str(x[1]).endswith("::get_service_id_by_sname") and x[2] == (("param", "sname"),)  # noqa: E731
        okn = False
        for _c, _n, t in Q(repo, f).calls():
            if t[0] == "call" and str(t[1]).endswith("::Service.__init__") and t[2]:
                alts = alternatives(t[2][0])
                okn = ("param", "sid") in alts and all(a == ("param", "sid") or lookups(a) for a in alts)
        r6.require(okn, f, "%s re-creates the client from disk" % cmd, "commands.%s no longer creates Service(sid) from the stored state" % cmd)
    # ---------------------------------------------------------------- R9.9 the links the round trip is composed of
    r9 = Rule("R9.9", "the links of the round trip hold: wire formats of what travels, the server's and the client's state keeping")
    rules.append(r9)
    from . import c01, c03, c10, c11
    # the first thing a new connection is sent is the init echo (the client unpickles the first message as that): in create_service the
    # construction of the Service - which sends it - precedes every other send
    from ..cfg import cfg_of as _cfg_of, calls_in_order as _cio
    mgr_create = repo.func(F.SRV_MGR, "ServicesManager.create_service")
    svc_init = repo.func(F.SRV, "Service.__init__")
    ccfg = _cfg_of(mgr_create.node)
    ctor_nodes, send_nodes = set(), []
    for n in ccfg.nodes:
        if n.stmt is None or n.ast is None:
            continue
        for c in _cio(n.stmt if n.kind != "test" else n.ast):
            tgt = repo.resolve_call(mgr_create, c)
            if hasattr(tgt, "key") and tgt.key == svc_init.key:
                ctor_nodes.add(n.id)
            d_ = dotted(c.func) or ""
            if d_.endswith("send_message") or d_.endswith(".send") or d_ == "send_message":
                send_nodes.append((n.id, c))
    if r9.require(bool(ctor_nodes), mgr_create, "connection object constructed", "create_service no longer constructs the Service of the connection"):
        for nid_, c in send_nodes:
            early = nid_ not in ctor_nodes and ccfg.can_reach(ccfg.entry, nid_, avoid=ctor_nodes)
            r9.require(not early, mgr_create, "init echo is the first message",
                       "create_service sends %s before the Service object (whose constructor sends the init echo) exists: a client that connects while its predecessor is "
                       "still registered receives this as its first message and fails to read it as the init echo" % short(c), c)
    for mod, ids, what in ((c01, ("R1.1", "R1.2"), "the scheme's search finds what its set-up stored"),
                           (c03, ("R3.1",), "token / result / index wire format"),
                           (c10, ("R10.1", "R10.3"), "the server keeps and persists the accepted uploads"),
                           (c11, ("R11.1", "R11.6", "R11.8"), "the client's step flags are kept, persisted and re-synchronised")):
        for rr in mod.check(repo):
            if rr.id not in ids:
                continue
            r9.obligations += rr.obligations
            r9.discharged += rr.discharged
            r9.instances.append({"imported": "%s (%s)" % (rr.id, what), "obligations": rr.obligations})
            for f in rr.findings:
                f.message = "a link of the end-to-end search is broken (%s, %s): %s" % (rr.id, what, f.message)
                f.rule = "R9.9"
                r9.findings.append(f)
    return rules


# ----------------------------------------------------------------------------- self-test variants
from ..selftest import V  # noqa: E402

VARIANTS = [
    V("server-replies-token-type", "fire", "R9.", [(F.SRV, "Service.handle_search_token", "self.send_message(MsgType.RESULT, content=result.serialize(), token_digest=tk_digest)", "self.send_message(MsgType.TOKEN, content=result.serialize(), token_digest=tk_digest)")]),
    V("future-registered-after-send", "fire", "R9.2", [(F.CLI, "Service.handle_upload_config",
      "            self.register_upload_echo_future_once(MsgType.CONFIG, fut)\n\n        await self._send_message(MsgType.CONFIG, pickle.dumps(self.config))",
      "        await self._send_message(MsgType.CONFIG, pickle.dumps(self.config))\n        if wait:\n            self.register_upload_echo_future_once(MsgType.CONFIG, fut)")]),
    V("search-without-loading-key", "fire", "R9.4", [(F.CLI, "Service.handle_keyword_search", "        self._load_sse_key()\n", "")]),
    V("server-edb-loader-skips-config-object", "fire", "R9.4", [(F.SRV, "Service._load_sse_encrypted_database", "        self._load_config_object()\n", "")]),
    V("token-digest-renamed", "fire", "R9.3", [(F.CLI, "Service.handle_keyword_search", "token_digest=token_digest)", "digest=token_digest)")]),
    V("server-default-config-scheme", "fire", "R9.5", [(F.SRV, "Service._load_sse_scheme", "self.sse_scheme = self.sse_module_loader.SSEScheme(self.config)", "self.sse_scheme = self.sse_module_loader.SSEScheme(self.sse_module_loader.SSEConfig.get_default_config())")]),
    V("search-utf16", "fire", "R9.6", [(F.CLI_CMD, "search", "keyword_bytes = bytes(keyword, encoding=\"utf-8\")", "keyword_bytes = bytes(keyword, encoding=\"utf-16\")")]),
    V("search-registers-under-token", "fire", "R9.2", [(F.CLI, "Service.handle_keyword_search", "self.register_upload_echo_future_once(MsgType.RESULT, fut)", "self.register_upload_echo_future_once(MsgType.TOKEN, fut)")]),
    V("client-key-loaded-with-token-class", "fire", "R9.4", [(F.CLI, "Service._load_sse_key", "KeyClass = self.sse_module_loader.SSEKey", "KeyClass = self.sse_module_loader.SSEToken")]),
    V("server-search-before-loading-edb", "fire", "R9.4", [(F.SRV, "Service.handle_search_token", "        self._load_sse_encrypted_database()\n", "")]),
    V("upload-sends-unserialized", "fire", "R9.4", [(F.CLI, "Service.handle_upload_encrypted_database", "await self._send_message(MsgType.UPLOAD_DB, self.edb.serialize())", "await self._send_message(MsgType.UPLOAD_DB, pickle.dumps(self.edb))")]),
]
