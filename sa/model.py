"""E1 - source model of /repo: parsed modules, symbol tables, import/alias resolution.

Everything is computed from the working tree on every run; nothing under /repo is imported.
"""
import ast
import hashlib
import os
import sys

REPO = os.environ.get("SSEPY_REPO", "/repo")

EXCLUDE_DIRS = {".git", "test", "__pycache__", ".pytest_cache", "venv", ".venv", "build", "dist"}


class AnalysisError(Exception):
    """The analysis cannot see what it needs (vanished anchor, syntax error, floor not met)."""


def set_parents(tree):
    for node in ast.walk(tree):
        for child in ast.iter_child_nodes(node):
            child._parent = node
    tree._parent = None


def parent(node):
    return getattr(node, "_parent", None)


def ancestors(node):
    n = parent(node)
    while n is not None:
        yield n
        n = parent(n)


def enclosing_function(node):
    for a in ancestors(node):
        if isinstance(a, (ast.FunctionDef, ast.AsyncFunctionDef, ast.Lambda)):
            return a
    return None


def enclosing_stmt(node):
    n = node
    while n is not None and not isinstance(n, ast.stmt):
        n = parent(n)
    return n


def unparse(node):
    try:
        return ast.unparse(node)
    except Exception:  # pragma: no cover
        return "<%s>" % type(node).__name__


def short(node, n=90):
    s = " ".join(unparse(node).split())
    return s if len(s) <= n else s[: n - 3] + "..."


def dotted(node):
    """a.b.c -> 'a.b.c' for Name/Attribute chains, else None."""
    parts = []
    while isinstance(node, ast.Attribute):
        parts.append(node.attr)
        node = node.value
    if isinstance(node, ast.Name):
        parts.append(node.id)
        return ".".join(reversed(parts))
    return None


def clone(n):
    """Deep copy of an AST without the analysis attributes (_parent links would drag the whole module along)."""
    if isinstance(n, ast.AST):
        new = type(n)()
        for f in n._fields:
            if hasattr(n, f):
                setattr(new, f, clone(getattr(n, f)))
        for a in ("lineno", "col_offset", "end_lineno", "end_col_offset"):
            if hasattr(n, a):
                setattr(new, a, getattr(n, a))
        if hasattr(n, "_inlined_from"):
            new._inlined_from = n._inlined_from
        return new
    if isinstance(n, list):
        return [clone(x) for x in n]
    return n


_IL_CACHE = {}


def _pure_method(call):
    """Read-only container methods whose result may stand in for the temporary that holds it."""
    return isinstance(call.func, ast.Attribute) and call.func.attr in ("get", "lower", "upper", "bit_length", "keys", "values", "items") and \
        dotted(call.func.value) is not None


def inline_locals(fnode, expr, depth=3):
    """Copy of `expr` in which local names that have exactly one plain assignment in `fnode` (and are never augmented,
    deleted, used as loop/with targets or parameters) are replaced by their (recursively inlined) value.  Makes
    comparisons insensitive to 'introduce a temporary' refactorings."""
    cached = _IL_CACHE.get(id(fnode))
    if cached is not None and cached[0] is fnode:
        T = cached[1]
        try:
            return ast.fix_missing_locations(T(depth).visit(clone(expr)))
        except Exception:
            return expr
    assigns, banned = {}, set()
    a = fnode.args
    for x in a.posonlyargs + a.args + a.kwonlyargs + ([a.vararg] if a.vararg else []) + ([a.kwarg] if a.kwarg else []):
        banned.add(x.arg)
    for st in ast.walk(fnode):
        if isinstance(st, ast.Assign):
            for t in st.targets:
                if isinstance(t, ast.Name):
                    assigns.setdefault(t.id, []).append(st.value)
                else:
                    for n in ast.walk(t):
                        if isinstance(n, ast.Name) and isinstance(n.ctx, ast.Store):
                            banned.add(n.id)
        elif isinstance(st, (ast.AugAssign, ast.AnnAssign)):
            for n in ast.walk(st.target):
                if isinstance(n, ast.Name):
                    banned.add(n.id)
        elif isinstance(st, (ast.For, ast.AsyncFor)):
            for n in ast.walk(st.target):
                if isinstance(n, ast.Name):
                    banned.add(n.id)
        elif isinstance(st, (ast.With, ast.AsyncWith)):
            for it in st.items:
                if it.optional_vars is not None:
                    for n in ast.walk(it.optional_vars):
                        if isinstance(n, ast.Name):
                            banned.add(n.id)
        elif isinstance(st, ast.comprehension):
            for n in ast.walk(st.target):
                if isinstance(n, ast.Name):
                    banned.add(n.id)
        elif isinstance(st, ast.NamedExpr):
            banned.add(st.target.id)
    single = {k: v[0] for k, v in assigns.items() if k not in banned and len(v) == 1}
    pure = ("len", "int", "min", "max", "abs", "math.ceil", "math.floor", "math.log2", "sum", "bool", "bytes", "str")

    class T(ast.NodeTransformer):
        def __init__(self, d):
            self.d = d

        def visit_Name(self, node):
            if isinstance(node.ctx, ast.Load) and node.id in single and self.d > 0:
                v = clone(single[node.id])
                # do not inline calls (they may have effects / fresh values) except pure path/arith helpers
                if any(isinstance(x, (ast.Await, ast.Yield)) for x in ast.walk(v)) or any(
                        isinstance(x, ast.Call) and dotted(x.func) not in pure and not _pure_method(x) for x in ast.walk(v)):
                    return node
                return T(self.d - 1).visit(v)
            return node
    # several assignments are fine when they all spell the same expression once their own temporaries are inlined
    # (one temporary re-declared per loop)
    for _ in range(3):
        grew = False
        for k, v in assigns.items():
            if k in banned or k in single or len(v) < 2:
                continue
            try:
                forms = {ast.dump(T(depth).visit(clone(x))) for x in v}
            except Exception:
                continue
            if len(forms) == 1:
                single[k] = v[0]
                grew = True
        if not grew:
            break
    _IL_CACHE[id(fnode)] = (fnode, T)
    try:
        return ast.fix_missing_locations(T(depth).visit(clone(expr)))
    except Exception:
        return expr


def itext(fi_or_node, expr):
    """unparse(expr) with single-assignment arithmetic temporaries of the enclosing function inlined."""
    fnode = getattr(fi_or_node, "node", fi_or_node)
    return unparse(inline_locals(fnode, expr))


class FunctionInfo:
    def __init__(self, module, cls, node, outer=None):
        self.module = module
        self.cls = cls  # ClassInfo or None
        self.node = node
        self.name = node.name
        self.outer = outer
        self.is_async = isinstance(node, ast.AsyncFunctionDef)
        self.decorators = [unparse(d) for d in node.decorator_list]

    @property
    def qual(self):
        if self.outer is not None:
            return "%s.<locals>.%s" % (self.outer.qual, self.name)
        if self.cls is not None:
            return "%s.%s" % (self.cls.name, self.name)
        return self.name

    @property
    def key(self):
        return "%s::%s" % (self.module.rel, self.qual)

    @property
    def params(self):
        a = self.node.args
        return [x.arg for x in a.posonlyargs + a.args] + ([a.vararg.arg] if a.vararg else []) + \
               [x.arg for x in a.kwonlyargs] + ([a.kwarg.arg] if a.kwarg else [])

    def __repr__(self):
        return "<fn %s>" % self.key


class ClassInfo:
    def __init__(self, module, node):
        self.module = module
        self.node = node
        self.name = node.name
        self.methods = {}
        self.attrs = {}  # class-level simple assignments name -> value node
        self.bases = [unparse(b) for b in node.bases]

    @property
    def key(self):
        return "%s::%s" % (self.module.rel, self.name)


class Module:
    def __init__(self, repo, rel, source):
        self.repo = repo
        self.rel = rel
        self.source = source
        self.lines = source.splitlines()
        try:
            self.tree = ast.parse(source, filename=rel)
        except SyntaxError as e:
            raise AnalysisError("syntax error in %s: %s" % (rel, e))
        set_parents(self.tree)
        self.dotted = rel[:-3].replace("/", ".")
        if self.dotted.endswith(".__init__"):
            self.dotted = self.dotted[: -len(".__init__")]
        self.is_pkg = rel.endswith("__init__.py")
        self.functions = {}
        self.classes = {}
        self.globals = {}  # name -> value node (module-level simple assignment)
        self.imports = {}  # local name -> dotted target
        self._index()

    def reindex(self):
        """Re-derive the symbol tables after the tree was rewritten (normalize.py)."""
        set_parents(self.tree)
        self.functions = {}
        self.classes = {}
        self.globals = {}
        self.imports = {}
        self._index()

    def _index(self):
        for st in self.tree.body:
            self._index_stmt(st)
        # imports anywhere (function-local imports are used in this repo)
        for node in ast.walk(self.tree):
            if isinstance(node, ast.Import):
                for a in node.names:
                    if a.asname:
                        self.imports[a.asname] = a.name
                    else:
                        top = a.name.split(".")[0]
                        self.imports.setdefault(top, top)
            elif isinstance(node, ast.ImportFrom):
                base = node.module or ""
                if node.level:
                    pkg = self.dotted if self.is_pkg else self.dotted.rsplit(".", 1)[0] if "." in self.dotted else ""
                    parts = pkg.split(".") if pkg else []
                    if node.level > 1:
                        parts = parts[: len(parts) - (node.level - 1)]
                    base = ".".join(parts + ([node.module] if node.module else []))
                for a in node.names:
                    self.imports[a.asname or a.name] = (base + "." + a.name) if base else a.name

    def _index_stmt(self, st):
        if isinstance(st, (ast.FunctionDef, ast.AsyncFunctionDef)):
            fi = FunctionInfo(self, None, st)
            self.functions[st.name] = fi
            self._index_nested(fi)
        elif isinstance(st, ast.ClassDef):
            ci = ClassInfo(self, st)
            self.classes[st.name] = ci
            for s in st.body:
                if isinstance(s, (ast.FunctionDef, ast.AsyncFunctionDef)):
                    fi = FunctionInfo(self, ci, s)
                    # keep the last non-overload definition
                    if any("overload" in d for d in fi.decorators):
                        continue
                    ci.methods[s.name] = fi
                    self._index_nested(fi)
                elif isinstance(s, ast.Assign):
                    for t in s.targets:
                        for nm in _target_names(t):
                            ci.attrs[nm] = s.value
                elif isinstance(s, ast.AnnAssign) and isinstance(s.target, ast.Name) and s.value is not None:
                    ci.attrs[s.target.id] = s.value
        elif isinstance(st, ast.Assign):
            for t in st.targets:
                if isinstance(t, ast.Name):
                    self.globals[t.id] = st.value
                elif isinstance(t, ast.Tuple) and isinstance(st.value, ast.Tuple) and len(t.elts) == len(st.value.elts):
                    for a, b in zip(t.elts, st.value.elts):
                        if isinstance(a, ast.Name):
                            self.globals[a.id] = b
                elif isinstance(t, ast.Tuple):
                    for a in t.elts:
                        if isinstance(a, ast.Name):
                            self.globals[a.id] = st.value
        elif isinstance(st, ast.AnnAssign) and isinstance(st.target, ast.Name) and st.value is not None:
            self.globals[st.target.id] = st.value
        elif isinstance(st, (ast.If, ast.Try)):
            for s in ast.iter_child_nodes(st):
                if isinstance(s, ast.stmt):
                    self._index_stmt(s)

    def _index_nested(self, fi):
        fi.nested = {}
        for s in ast.walk(fi.node):
            if s is fi.node:
                continue
            if isinstance(s, (ast.FunctionDef, ast.AsyncFunctionDef)) and enclosing_function(s) is fi.node:
                nf = FunctionInfo(self, fi.cls, s, outer=fi)
                fi.nested[s.name] = nf
                self._index_nested(nf)

    def all_functions(self):
        def rec(fi):
            yield fi
            for n in getattr(fi, "nested", {}).values():
                yield from rec(n)
        for fi in self.functions.values():
            yield from rec(fi)
        for ci in self.classes.values():
            for fi in ci.methods.values():
                yield from rec(fi)


def _target_names(t):
    if isinstance(t, ast.Name):
        yield t.id
    elif isinstance(t, (ast.Tuple, ast.List)):
        for e in t.elts:
            yield from _target_names(e)


class Repo:
    def __init__(self, root=None):
        self.root = root or REPO
        self.modules = {}  # rel path -> Module
        self.by_dotted = {}
        for dirpath, dirnames, filenames in os.walk(self.root):
            dirnames[:] = sorted(d for d in dirnames if d not in EXCLUDE_DIRS and not d.startswith("."))
            for fn in sorted(filenames):
                if not fn.endswith(".py"):
                    continue
                full = os.path.join(dirpath, fn)
                rel = os.path.relpath(full, self.root)
                with open(full, encoding="utf-8") as f:
                    src = f.read()
                m = Module(self, rel, src)
                self.modules[rel] = m
                self.by_dotted[m.dotted] = m

    # ---- lookup with anchors -------------------------------------------------
    def module(self, rel):
        m = self.modules.get(rel)
        if m is None:
            raise AnalysisError("anchor module vanished: %s" % rel)
        return m

    def cls(self, rel, name):
        c = self.module(rel).classes.get(name)
        if c is None:
            raise AnalysisError("anchor class vanished: %s::%s" % (rel, name))
        return c

    def func(self, rel, qual):
        m = self.module(rel)
        if "." in qual:
            cn, fn = qual.split(".", 1)
            c = m.classes.get(cn)
            f = c.methods.get(fn) if c else None
        else:
            f = m.functions.get(qual)
        if f is None:
            raise AnalysisError("anchor function vanished: %s::%s" % (rel, qual))
        return f

    def func_opt(self, rel, qual):
        try:
            return self.func(rel, qual)
        except AnalysisError:
            return None

    def digest(self, rels=None):
        h = hashlib.sha256()
        for rel in sorted(rels or self.modules):
            h.update(rel.encode())
            h.update(self.modules[rel].source.encode())
        return h.hexdigest()[:16]

    # ---- resolution ----------------------------------------------------------
    def resolve_dotted(self, module, name):
        """Resolve a dotted name as seen from `module` to ('func'|'class'|'module'|'global', obj) or None."""
        parts = name.split(".")
        head = parts[0]
        # local definitions first
        if head in module.functions and len(parts) == 1:
            return ("func", module.functions[head])
        if head in module.classes:
            ci = module.classes[head]
            if len(parts) == 1:
                return ("class", ci)
            if len(parts) == 2 and parts[1] in ci.methods:
                return ("func", ci.methods[parts[1]])
            if len(parts) == 2 and parts[1] in ci.attrs:
                return ("classattr", (ci, parts[1]))
            return None
        if head in module.globals and len(parts) == 1:
            return ("global", (module, head))
        if head in module.imports:
            target = module.imports[head] + ("." + ".".join(parts[1:]) if len(parts) > 1 else "")
            return self._resolve_abs(target)
        return None

    def _resolve_abs(self, target):
        parts = target.split(".")
        # longest module prefix
        for i in range(len(parts), 0, -1):
            mod = self.by_dotted.get(".".join(parts[:i]))
            if mod is None:
                continue
            rest = parts[i:]
            if not rest:
                return ("module", mod)
            if rest[0] in mod.functions and len(rest) == 1:
                return ("func", mod.functions[rest[0]])
            if rest[0] in mod.classes:
                ci = mod.classes[rest[0]]
                if len(rest) == 1:
                    return ("class", ci)
                if len(rest) == 2 and rest[1] in ci.methods:
                    return ("func", ci.methods[rest[1]])
                if len(rest) == 2 and rest[1] in ci.attrs:
                    return ("classattr", (ci, rest[1]))
                return None
            if rest[0] in mod.globals and len(rest) == 1:
                return ("global", (mod, rest[0]))
            if rest[0] in mod.imports:
                return self._resolve_abs(mod.imports[rest[0]] + ("." + ".".join(rest[1:]) if len(rest) > 1 else ""))
            return None
        return ("external", target)

    def resolve_call(self, fi, call):
        """Resolve the callee of `call` appearing inside function `fi` (FunctionInfo).

        Returns FunctionInfo, ('external', dotted) or None.  Handles self.m(), cls.m(), Class.m(),
        alias.f(), constructor -> __init__, super().m() is left unresolved.
        """
        f = call.func
        module = fi.module if fi is not None else None
        d = dotted(f)
        if d is None:
            return None
        parts = d.split(".")
        if fi is not None and fi.cls is not None and parts[0] in ("self", "cls") and len(parts) == 2:
            m = self.lookup_method(fi.cls, parts[1])
            if m is not None:
                return m
            return None
        if fi is not None:
            # nested function of an enclosing function
            o = fi
            while o is not None:
                if len(parts) == 1 and parts[0] in getattr(o, "nested", {}):
                    return o.nested[parts[0]]
                o = o.outer
        r = self.resolve_dotted(module, d)
        if r is None:
            return None
        kind, obj = r
        if kind == "func":
            return obj
        if kind == "class":
            init = self.lookup_method(obj, "__init__")
            return init if init is not None else ("class", obj)
        if kind == "external":
            return ("external", obj)
        return None

    def lookup_method(self, ci, name, _seen=None):
        if name in ci.methods:
            return ci.methods[name]
        _seen = _seen or set()
        if ci.key in _seen:
            return None
        _seen.add(ci.key)
        for b in ci.bases:
            r = self.resolve_dotted(ci.module, b)
            if r and r[0] == "class":
                m = self.lookup_method(r[1], name, _seen)
                if m is not None:
                    return m
        return None

    def const_value(self, module, node, depth=0):
        """Evaluate a constant expression (literals, module globals, Class.ATTR, simple arithmetic)."""
        if depth > 8:
            raise ValueError("too deep")
        if isinstance(node, ast.Constant):
            return node.value
        if isinstance(node, (ast.Tuple, ast.List)):
            return [self.const_value(module, e, depth + 1) for e in node.elts]
        if isinstance(node, ast.Set):
            return set(self.const_value(module, e, depth + 1) for e in node.elts)
        if isinstance(node, ast.Dict):
            return {self.const_value(module, k, depth + 1): self.const_value(module, v, depth + 1)
                    for k, v in zip(node.keys, node.values)}
        if isinstance(node, ast.UnaryOp) and isinstance(node.op, ast.USub):
            return -self.const_value(module, node.operand, depth + 1)
        if isinstance(node, ast.UnaryOp) and isinstance(node.op, ast.Invert):
            return ~self.const_value(module, node.operand, depth + 1)
        if isinstance(node, ast.BinOp):
            l = self.const_value(module, node.left, depth + 1)
            r = self.const_value(module, node.right, depth + 1)
            ops = {ast.Add: lambda a, b: a + b, ast.Sub: lambda a, b: a - b, ast.Mult: lambda a, b: a * b,
                   ast.FloorDiv: lambda a, b: a // b, ast.Pow: lambda a, b: a ** b, ast.Mod: lambda a, b: a % b,
                   ast.BitOr: lambda a, b: a | b, ast.BitAnd: lambda a, b: a & b, ast.LShift: lambda a, b: a << b}
            fn = ops.get(type(node.op))
            if fn is None:
                raise ValueError("op")
            if isinstance(node.op, ast.Pow) and (not isinstance(r, int) or r > 64):
                raise ValueError("pow")
            return fn(l, r)
        d = dotted(node)
        if d is not None:
            r = self.resolve_dotted(module, d)
            if r is None:
                raise ValueError("unresolved %s" % d)
            kind, obj = r
            if kind == "global":
                m, nm = obj
                return self.const_value(m, m.globals[nm], depth + 1)
            if kind == "classattr":
                ci, nm = obj
                return self.const_value(ci.module, ci.attrs[nm], depth + 1)
        raise ValueError("not constant: %s" % unparse(node))


_repo_cache = {}


def _rebuild(repo, rels):
    for rel in rels:
        repo.modules[rel].reindex()


def load_repo(root=None):
    root = root or REPO
    if root not in _repo_cache:
        repo = Repo(root)
        repo.normal_notes = []
        if not os.environ.get("SSEPY_VERIF_RAW"):
            from . import normalize
            repo.normal_notes = normalize.normalize(repo, _rebuild)
        _repo_cache[root] = repo
        _fill_signatures(repo)
    return _repo_cache[root]


def _fill_signatures(repo):
    """Bare-name signatures of toolkit functions / classes for straight.py's canonical call form (unique names only)."""
    from . import straight
    seen = {}
    for rel, m in repo.modules.items():
        if not rel.startswith("toolkit/"):
            continue
        for nm, fi in m.functions.items():
            seen.setdefault(nm, []).append(list(fi.params))
        for cn, ci in m.classes.items():
            init = ci.methods.get("__init__")
            if init is not None and not init.node.args.kwonlyargs:
                seen.setdefault(cn, []).append(list(init.params[1:]))
    straight.SIGNATURES.clear()
    for nm, sigs in seen.items():
        if len(sigs) == 1:
            straight.SIGNATURES[nm] = sigs[0]
