"""Mechanical behaviour-preserving renamings of a source tree (used by the thorough tier and by tools/rename_sweep.py).

  locals      one variant per module: every local variable of every function is renamed (alpha-renaming, unrelated new names)
  params      one variant per module: positional parameters that are never passed by keyword anywhere get a suffix
  private     one variant per private function / method name (`_x`, not dunder): definition and every reference renamed
  attrs       one variant per instance attribute (stored as self.<a>, not mentioned in strings / keywords): renamed everywhere

Each is a renaming that cannot change behaviour, so every check has to stay silent on it; what they exercise is the
analysis' independence from the names the code happens to use (rename / import / helper normal forms, role-by-position rules).
"""
import ast
import builtins
import os

from .model import EXCLUDE_DIRS


def py_files(root):
    out = []
    for dp, dn, fn in os.walk(root):
        dn[:] = [d for d in dn if d not in EXCLUDE_DIRS and not d.startswith(".")]
        for f in fn:
            if f.endswith(".py"):
                out.append(os.path.relpath(os.path.join(dp, f), root))
    return sorted(out)


def outer_functions(tree):
    out = []

    def visit(n, inside):
        for c in ast.iter_child_nodes(n):
            if isinstance(c, (ast.FunctionDef, ast.AsyncFunctionDef)):
                if not inside:
                    out.append(c)
                visit(c, True)
            else:
                visit(c, inside)
    visit(tree, False)
    return out


def rename_locals(src, suffix="_rn"):
    tree = ast.parse(src)
    n = 0
    module_names = {x.id for x in ast.walk(tree) if isinstance(x, ast.Name)} | set(dir(builtins))
    for f in outer_functions(tree):
        if any(isinstance(x, ast.ClassDef) for x in ast.walk(f)):
            continue
        params = {a.arg for x in ast.walk(f) if isinstance(x, (ast.FunctionDef, ast.AsyncFunctionDef, ast.Lambda)) for a in ast.walk(x.args) if isinstance(a, ast.arg)}
        declared = {nm for x in ast.walk(f) if isinstance(x, (ast.Global, ast.Nonlocal)) for nm in x.names}
        inner_defs = {x.name for x in ast.walk(f) if isinstance(x, (ast.FunctionDef, ast.AsyncFunctionDef)) and x is not f}
        stored = {x.id for x in ast.walk(f) if isinstance(x, ast.Name) and isinstance(x.ctx, (ast.Store, ast.Del))}
        handlers = {x.name for x in ast.walk(f) if isinstance(x, ast.ExceptHandler) and x.name}
        imported = {(a.asname or a.name).split(".")[0] for x in ast.walk(f) if isinstance(x, (ast.Import, ast.ImportFrom)) for a in x.names}
        R = stored - params - declared - inner_defs - handlers - imported
        # new names share no substring with the old ones (a rule that looks for "A_len" in text must not survive by accident)
        M = {}
        for i, r in enumerate(sorted(R)):
            M[r] = ("zq%d" % i) if suffix == "_rn" else r + suffix
        M = {k: v for k, v in M.items() if v not in module_names}
        if not M:
            continue
        for x in ast.walk(f):
            if isinstance(x, ast.Name) and x.id in M:
                x.id = M[x.id]
                n += 1
    return ast.unparse(tree) + "\n", n


def rename_params(src, all_kw, suffix="_p", public=False):
    tree = ast.parse(src)
    n = 0
    for f in [x for x in ast.walk(tree) if isinstance(x, (ast.FunctionDef, ast.AsyncFunctionDef))]:
        if not public and (not f.name.startswith("_") or f.name.startswith("__")):
            continue
        if any(isinstance(x, (ast.FunctionDef, ast.AsyncFunctionDef, ast.Lambda, ast.ClassDef)) and x is not f for x in ast.walk(f)):
            continue
        names = {x.id for x in ast.walk(f) if isinstance(x, ast.Name)}
        for a in f.args.posonlyargs + f.args.args:
            if a.arg in ("self", "cls") or a.arg in all_kw or (a.arg + suffix) in names:
                continue
            old = a.arg
            a.arg = old + suffix
            for x in ast.walk(f):
                if isinstance(x, ast.Name) and x.id == old:
                    x.id = old + suffix
            n += 1
    return ast.unparse(tree) + "\n", n


class _Ren(ast.NodeTransformer):
    def __init__(self, old, new):
        self.old, self.new, self.n = old, new, 0

    def visit_FunctionDef(self, node):
        self.generic_visit(node)
        if node.name == self.old:
            node.name = self.new
            self.n += 1
        return node
    visit_AsyncFunctionDef = visit_FunctionDef

    def visit_Name(self, node):
        if node.id == self.old:
            node.id = self.new
            self.n += 1
        return node

    def visit_Attribute(self, node):
        self.generic_visit(node)
        if node.attr == self.old:
            node.attr = self.new
            self.n += 1
        return node

    def visit_ImportFrom(self, node):
        for a in node.names:
            if a.name == self.old:
                a.name = self.new
                self.n += 1
        return node


def private_names(root):
    names = {}
    other_uses = set()
    for rel in py_files(root):
        tree = ast.parse(open(os.path.join(root, rel)).read())
        for x in ast.walk(tree):
            if isinstance(x, (ast.FunctionDef, ast.AsyncFunctionDef)) and x.name.startswith("_") and not x.name.startswith("__"):
                names.setdefault(x.name, set()).add(rel)
            if isinstance(x, ast.Constant) and isinstance(x.value, str):
                other_uses.add(x.value)
            if isinstance(x, ast.keyword) and x.arg:
                other_uses.add(x.arg)
            if isinstance(x, ast.arg):
                other_uses.add(x.arg)
    return {k: v for k, v in names.items() if k not in other_uses}


def instance_attrs(root):
    stored, strings, funcs = {}, set(), set()
    for rel in py_files(root):
        tree = ast.parse(open(os.path.join(root, rel)).read())
        for x in ast.walk(tree):
            if isinstance(x, ast.Attribute) and isinstance(x.ctx, ast.Store) and isinstance(x.value, ast.Name) and x.value.id == "self":
                if not rel.startswith("test/"):
                    stored.setdefault(x.attr, set()).add(rel)
            if isinstance(x, ast.Constant) and isinstance(x.value, str):
                strings.add(x.value)
            if isinstance(x, (ast.FunctionDef, ast.AsyncFunctionDef, ast.ClassDef)):
                funcs.add(x.name)
            if isinstance(x, ast.keyword) and x.arg:
                strings.add(x.arg)
            if isinstance(x, ast.arg):
                strings.add(x.arg)
    return {a: v for a, v in stored.items() if a not in strings and a not in funcs and not (a.startswith("__") and a.endswith("__"))}




def keyword_names(root):
    out = set()
    for rel in py_files(root):
        for x in ast.walk(ast.parse(open(os.path.join(root, rel)).read())):
            if isinstance(x, ast.keyword) and x.arg:
                out.add(x.arg)
    return out


def variants(root):
    """[(kind, key)] for the tree at root (test/ is renamed along but never the subject of a variant)."""
    mods = [r for r in py_files(root) if not r.startswith("test/")]
    work = [("locals", r) for r in mods] + [("params", r) for r in mods]
    work += [("private", k) for k in sorted(private_names(root))]
    work += [("attrs", k) for k in sorted(instance_attrs(root))]
    return work


def apply(root, kind, key, all_kw=None):
    """Rewrite the tree at root in place; -> number of renamed occurrences (0 = variant does not apply)."""
    n = 0
    if kind == "locals":
        src, n = rename_locals(open(os.path.join(root, key)).read())
        if n:
            open(os.path.join(root, key), "w").write(src)
    elif kind in ("params", "params_all", "params_private"):
        if all_kw is None:
            all_kw = keyword_names(root)
        src, n = rename_params(open(os.path.join(root, key)).read(), all_kw, public=(kind != "params_private"))
        if n:
            open(os.path.join(root, key), "w").write(src)
    elif kind in ("private", "attrs"):
        new = key + "_rn" if kind == "private" else ("zattr_" + "".join(reversed(key.strip("_"))))
        if kind == "attrs" and key.startswith("__"):
            new = "__" + new
        for rel in py_files(root):
            path = os.path.join(root, rel)
            s = open(path).read()
            if key not in s:
                continue
            r = _Ren(key, new)
            t = r.visit(ast.parse(s))
            if r.n:
                open(path, "w").write(ast.unparse(t) + "\n")
                n += r.n
    if n:
        for rel in py_files(root):
            compile(open(os.path.join(root, rel)).read(), rel, "exec")
    return n


# ----------------------------------------------------------------------------------------------------------------------
# behaviour-preserving reshapings (one variant per module and kind; applied at every site of the module)

class _SwapIf(ast.NodeTransformer):
    """if c: A else: B   ->   if not c: B else: A      (only plain if/else, no elif on either side)"""

    def __init__(self):
        self.n = 0

    def visit_If(self, node):
        self.generic_visit(node)
        if node.orelse and not (len(node.orelse) == 1 and isinstance(node.orelse[0], ast.If)) and \
                not (len(node.body) == 1 and isinstance(node.body[0], ast.If)):
            t = node.test
            node.test = t.operand if isinstance(t, ast.UnaryOp) and isinstance(t.op, ast.Not) else ast.UnaryOp(op=ast.Not(), operand=t)
            node.body, node.orelse = node.orelse, node.body
            self.n += 1
        return node


class _FlipCmp(ast.NodeTransformer):
    """a < b -> b > a, a == b -> b == a, ... (single comparisons whose operands are free of calls, so evaluation order cannot matter)"""
    MIRROR = {ast.Lt: ast.Gt, ast.Gt: ast.Lt, ast.LtE: ast.GtE, ast.GtE: ast.LtE, ast.Eq: ast.Eq, ast.NotEq: ast.NotEq}

    def __init__(self):
        self.n = 0

    def visit_Compare(self, node):
        self.generic_visit(node)
        if len(node.ops) == 1 and type(node.ops[0]) in self.MIRROR and \
                not any(isinstance(x, (ast.Call, ast.Await, ast.NamedExpr, ast.Yield)) for x in ast.walk(node)):
            l, r = node.left, node.comparators[0]
            node.left, node.comparators, node.ops = r, [l], [self.MIRROR[type(node.ops[0])]()]
            self.n += 1
        return node


class _RetTmp(ast.NodeTransformer):
    """return E  ->  ret_value = E; return ret_value"""

    def __init__(self):
        self.n = 0

    def _block(self, stmts):
        out = []
        for st in stmts:
            if isinstance(st, ast.Return) and st.value is not None and not isinstance(st.value, (ast.Name, ast.Constant)):
                out.append(ast.Assign(targets=[ast.Name(id="ret_value_", ctx=ast.Store())], value=st.value))
                out.append(ast.Return(value=ast.Name(id="ret_value_", ctx=ast.Load())))
                self.n += 1
            else:
                out.append(st)
        return out

    def generic_visit(self, node):
        super().generic_visit(node)
        if isinstance(node, ast.Lambda):
            return node
        for field in ("body", "orelse", "finalbody"):
            lst = getattr(node, field, None)
            if isinstance(lst, list) and lst and isinstance(lst[0], ast.stmt):
                setattr(node, field, self._block(lst))
        if isinstance(node, ast.Try):
            for h in node.handlers:
                h.body = self._block(h.body)
        return node


class _TestTmp(ast.NodeTransformer):
    """if <test>: ...  ->  cond_ = <test>; if cond_: ...   (first `if` of an if/elif chain only; not for while)"""

    def __init__(self):
        self.n = 0

    def _block(self, stmts):
        out = []
        for st in stmts:
            if isinstance(st, ast.If) and not isinstance(st.test, (ast.Name, ast.Constant)) and \
                    not any(isinstance(x, (ast.NamedExpr, ast.Await, ast.Yield)) for x in ast.walk(st.test)):
                out.append(ast.Assign(targets=[ast.Name(id="cond_", ctx=ast.Store())], value=st.test))
                st.test = ast.Name(id="cond_", ctx=ast.Load())
                self.n += 1
            out.append(st)
        return out

    def generic_visit(self, node):
        super().generic_visit(node)
        for field in ("body", "orelse", "finalbody"):
            lst = getattr(node, field, None)
            if isinstance(lst, list) and lst and isinstance(lst[0], ast.stmt):
                if field == "orelse" and isinstance(node, ast.If) and len(lst) == 1 and isinstance(lst[0], ast.If):
                    continue      # elif: the test must stay where it is
                if isinstance(node, ast.ClassDef) or isinstance(node, ast.Module):
                    continue
                setattr(node, field, self._block(lst))
        if isinstance(node, ast.Try):
            for h in node.handlers:
                h.body = self._block(h.body)
        return node


class _SplitAnd(ast.NodeTransformer):
    """if a and b: S   ->   if a:\n    if b: S        (only without else: the else arm would have to be duplicated)"""

    def __init__(self):
        self.n = 0

    def visit_If(self, node):
        self.generic_visit(node)
        if not node.orelse and isinstance(node.test, ast.BoolOp) and isinstance(node.test.op, ast.And) and len(node.test.values) >= 2:
            first, rest = node.test.values[0], node.test.values[1:]
            inner = ast.If(test=rest[0] if len(rest) == 1 else ast.BoolOp(op=ast.And(), values=rest), body=node.body, orelse=[])
            node.test, node.body = first, [inner]
            self.n += 1
        return node


class _DeMorgan(ast.NodeTransformer):
    """a or b  ->  not (not a and not b);   a and b  ->  not (not a or not b)      (in `if` / `while` tests only: truthiness is what counts there)"""

    def __init__(self):
        self.n = 0

    @staticmethod
    def _neg(e):
        if isinstance(e, ast.UnaryOp) and isinstance(e.op, ast.Not):
            return e.operand
        if isinstance(e, ast.Compare) and len(e.ops) == 1:
            inv = {ast.Eq: ast.NotEq, ast.NotEq: ast.Eq, ast.Lt: ast.GtE, ast.GtE: ast.Lt, ast.Gt: ast.LtE, ast.LtE: ast.Gt,
                   ast.Is: ast.IsNot, ast.IsNot: ast.Is, ast.In: ast.NotIn, ast.NotIn: ast.In}
            return ast.Compare(left=e.left, ops=[inv[type(e.ops[0])]()], comparators=e.comparators)
        return ast.UnaryOp(op=ast.Not(), operand=e)

    def _rewrite(self, t):
        if isinstance(t, ast.BoolOp) and not any(isinstance(x, ast.NamedExpr) for x in ast.walk(t)):
            other = ast.And() if isinstance(t.op, ast.Or) else ast.Or()
            self.n += 1
            return ast.UnaryOp(op=ast.Not(), operand=ast.BoolOp(op=other, values=[self._neg(v) for v in t.values]))
        return t

    def visit_If(self, node):
        self.generic_visit(node)
        node.test = self._rewrite(node.test)
        return node

    def visit_While(self, node):
        self.generic_visit(node)
        node.test = self._rewrite(node.test)
        return node


RESHAPES = {"swap_if": _SwapIf, "flip_cmp": _FlipCmp, "ret_tmp": _RetTmp, "test_tmp": _TestTmp, "split_and": _SplitAnd, "demorgan": _DeMorgan}


def reshape_variants(root):
    mods = [r for r in py_files(root) if not r.startswith("test/")]
    return [(k, r) for k in RESHAPES for r in mods]


def apply_reshape(root, kind, rel):
    path = os.path.join(root, rel)
    tree = ast.parse(open(path).read())
    tr = RESHAPES[kind]()
    tree = tr.visit(tree)
    if tr.n:
        ast.fix_missing_locations(tree)
        src = ast.unparse(tree) + "\n"
        compile(src, rel, "exec")
        open(path, "w").write(src)
    return tr.n
