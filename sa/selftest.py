"""E7 - two-way self-test of a property's rules on variants of the current tree (thorough tier).

A variant is a list of edits applied to a scratch copy of /repo's python sources.  Each edit is
located inside a named function (resolved through the same source model the rules use) and
replaces one source fragment of that function.  `fire` variants must be reported with a finding
whose rule id starts with the expected prefix; `silent` variants must produce no new finding.
"""
import ast
import json
import multiprocessing
import os
import shutil
import sys
import tempfile
import time

from .model import REPO, Repo, AnalysisError, EXCLUDE_DIRS
from . import core


class V:
    def __init__(self, name, expect, rule, edits, note=""):
        self.name = name
        self.expect = expect  # 'fire' | 'silent'
        self.rule = rule  # expected rule-id prefix for 'fire'
        self.edits = edits  # list of (rel, func_qual_or_None, old, new)
        self.note = note


def copy_tree(dst, root=REPO):
    for dirpath, dirnames, filenames in os.walk(root):
        dirnames[:] = [d for d in dirnames if d not in EXCLUDE_DIRS and not d.startswith(".")]
        rel = os.path.relpath(dirpath, root)
        os.makedirs(os.path.join(dst, rel), exist_ok=True)
        for fn in filenames:
            if fn.endswith(".py"):
                shutil.copy2(os.path.join(dirpath, fn), os.path.join(dst, rel, fn))


def _norm(s):
    return " ".join(s.split())


def apply_edit(root, rel, func, old, new):
    """Replace `old` (whitespace-insensitive on line starts) by `new` inside function `func` of file `rel`."""
    path = os.path.join(root, rel)
    with open(path, encoding="utf-8") as f:
        src = f.read()
    lo, hi = 0, len(src)
    if func:
        tree = ast.parse(src)
        target = None
        parts = func.split(".")
        body = tree.body
        node = None
        for p in parts:
            node = next((n for n in body if isinstance(n, (ast.FunctionDef, ast.AsyncFunctionDef, ast.ClassDef))
                         and n.name == p and not any("overload" in ast.unparse(d) for d in getattr(n, "decorator_list", []))), None)
            if node is None:
                return False
            body = node.body
        lines = src.splitlines(keepends=True)
        lo = sum(len(l) for l in lines[: node.lineno - 1])
        hi = sum(len(l) for l in lines[: node.end_lineno])
    seg = src[lo:hi]
    if seg.count(old) != 1:
        return False
    seg = seg.replace(old, new)
    src2 = src[:lo] + seg + src[hi:]
    try:
        ast.parse(src2)
    except SyntaxError:
        return False
    with open(path, "w", encoding="utf-8") as f:
        f.write(src2)
    return True


def _run_variant(args):
    pid, modname, idx, base_keys = args
    import importlib
    mod = importlib.import_module(modname)
    v = mod.VARIANTS[idx]
    tmp = tempfile.mkdtemp(prefix="ssepy_var_")
    try:
        copy_tree(tmp)
        for (rel, func, old, new) in v.edits:
            if not apply_edit(tmp, rel, func, old, new):
                return (v.name, "skipped", "edit anchor not found in %s::%s" % (rel, func), [])
        code, rules, viols, out = core.run_property(pid, mod, root=tmp, quiet=True, write_evidence=False)
        if code == 2:
            return (v.name, "analysis-error", "; ".join(out), [])
        keys = [f.key for f in viols]
        known_keys = [f.key for r in rules for f in r.findings]
        new = [k for k in known_keys if k not in base_keys]
        if v.expect == "fire":
            hit = [k for k in new if (v.rule is None or k.startswith(v.rule))]
            if hit:
                return (v.name, "ok", "caught by %s" % hit[0], new)
            return (v.name, "MISSED", "expected a finding of %s, got %s" % (v.rule, new), new)
        else:
            if new:
                return (v.name, "FALSE-ALARM", "benign variant reported: %s" % new, new)
            return (v.name, "ok", "silent", [])
    finally:
        shutil.rmtree(tmp, ignore_errors=True)


ARCHIVE = os.path.join(os.path.dirname(os.path.dirname(os.path.abspath(__file__))), "seeded")


def archive_entries():
    """Entries of seeded/index.json: independently produced patches with a confirmed effect -
    kind 'seed' (breaks `property`; the check of that property must report something new) or 'benign' (behaviour preserving;
    no check may report anything new)."""
    p = os.path.join(ARCHIVE, "index.json")
    if not os.path.exists(p):
        return []
    try:
        with open(p) as f:
            return json.load(f)
    except Exception:
        return []


def _apply_patch(root, patch_path):
    import subprocess
    for cmd in (["patch", "-p1", "-s", "--no-backup-if-mismatch", "-i", patch_path], ["git", "apply", "--unsafe-paths", "--directory=.", patch_path]):
        try:
            r = subprocess.run(cmd, cwd=root, stdout=subprocess.PIPE, stderr=subprocess.STDOUT)
            if r.returncode == 0:
                return True
        except OSError:
            continue
        # a failed attempt may leave partial edits behind: start over from a fresh copy
        return False
    return False


def _run_archived(args):
    pid, modname, entry, base_keys = args
    import importlib
    mod = importlib.import_module(modname)
    name = entry["name"]
    tmp = tempfile.mkdtemp(prefix="ssepy_arch_")
    try:
        copy_tree(tmp)
        if not _apply_patch(tmp, os.path.join(ARCHIVE, entry["path"], "patch.diff")):
            return (name, "skipped", "patch does not apply to the current tree", [])
        code, rules, viols, out = core.run_property(pid, mod, root=tmp, quiet=True, write_evidence=False)
        if code == 2:
            return (name, "analysis-error", "; ".join(out), [])
        new = [f.key for r in rules for f in r.findings if f.key not in base_keys]
        if entry["kind"] == "seed":
            if new:
                return (name, "ok", "caught by %s" % new[0], new)
            return (name, "MISSED", "archived defect of %s not reported" % pid, new)
        if new:
            return (name, "FALSE-ALARM", "behaviour-preserving patch reported: %s" % new[:2], new)
        return (name, "ok", "silent", [])
    finally:
        shutil.rmtree(tmp, ignore_errors=True)


def _run_rename(args):
    """A mechanical renaming (sa/renames.py) of the tree under analysis: cannot change behaviour, so nothing new may be reported.
    Non-silence is recorded as a note (it says something about the analysis, not about the property) and does not fail the run."""
    pid, modname, kind, key, base_keys = args
    import importlib
    from . import renames
    mod = importlib.import_module(modname)
    name = "rename/%s:%s" % (kind, key)
    tmp = tempfile.mkdtemp(prefix="ssepy_ren_")
    try:
        copy_tree(tmp)
        try:
            n = renames.apply_reshape(tmp, kind, key) if kind in renames.RESHAPES else renames.apply(tmp, kind, key)
        except Exception as e:
            return (name, "skipped", "renaming not applicable here (%s)" % type(e).__name__, [])
        if not n:
            return (name, "skipped", "nothing to rename", [])
        code, rules, viols, out = core.run_property(pid, mod, root=tmp, quiet=True, write_evidence=False)
        if code == 2:
            return (name, "note", "analysis error on a renamed tree: " + "; ".join(out)[:200], [])
        new = [f.key for r in rules for f in r.findings if f.key not in base_keys]
        if new:
            return (name, "note", "renamed tree reported: %s" % new[:2], new)
        return (name, "ok", "silent", [])
    finally:
        shutil.rmtree(tmp, ignore_errors=True)


def run(pid, mod, seed=0, verbose=True):
    variants = getattr(mod, "VARIANTS", None)
    if not variants:
        if verbose:
            print("selftest: no variants registered for %s" % pid)
        return 0
    t0 = time.time()
    code, rules, viols, _ = core.run_property(pid, mod, quiet=True, write_evidence=False)
    base_keys = [f.key for r in rules for f in r.findings]
    jobs = [(pid, mod.__name__, i, base_keys) for i in range(len(variants))]
    arch = [e for e in archive_entries() if e["kind"] == "benign" or (e["kind"] == "seed" and e.get("property") == pid and e.get("own", True))]
    ajobs = [(pid, mod.__name__, e, base_keys) for e in arch]
    rjobs = []
    if not base_keys:
        try:
            from . import renames
            rjobs = [(pid, mod.__name__, kind, key, base_keys) for kind, key in renames.variants(REPO) + renames.reshape_variants(REPO)]
        except Exception:
            rjobs = []
    with multiprocessing.Pool(min(16, len(jobs) + len(ajobs) + len(rjobs))) as pool:
        results = pool.map(_run_variant, jobs)
        aresults = pool.map(_run_archived, ajobs) if ajobs else []
        rresults = pool.map(_run_rename, rjobs, chunksize=4) if rjobs else []
    results = list(results) + list(aresults)
    r_ok = sum(1 for r in rresults if r[1] == "ok")
    r_notes = [r for r in rresults if r[1] == "note"]
    bad = 0
    quiet_ok = 0
    for name, status, msg, new in results:
        if verbose and (status != "ok" or not name.startswith("benign/")):
            print("  selftest %-44s %-12s %s" % (name, status, msg[:150]))
        elif status == "ok":
            quiet_ok += 1
        if status in ("MISSED", "FALSE-ALARM", "analysis-error"):
            bad += 1
    if verbose and quiet_ok:
        print("  selftest %d archived behaviour-preserving patches: silent" % quiet_ok)
    if verbose and rresults:
        print("  selftest %d mechanical renamings and reshapings (locals / parameters / private functions / instance attributes; swapped branches / mirrored comparisons / named results and tests): %d silent, %d not" % (
            len([r for r in rresults if r[1] != "skipped"]), r_ok, len(r_notes)))
        for name, status, msg, new in r_notes[:10]:
            print("  selftest-note %-40s %s" % (name, msg[:160]))
    # extend the evidence file written by the quick part
    evp = os.path.join(core.VERIF, "evidence", "%s.json" % pid)
    try:
        with open(evp) as f:
            ev = json.load(f)
        ev["tier"] = "thorough"
        ev["coverage"]["selftest"] = [{"variant": n, "status": s, "detail": m} for n, s, m, _ in results]
        ev["coverage"]["selftest_variants"] = len(results)
        ev["coverage"]["selftest_failed"] = bad
        ev["coverage"]["renaming_variants"] = {"run": len([r for r in rresults if r[1] != "skipped"]), "silent": r_ok,
                                               "not_silent": [{"variant": n, "detail": m} for n, s_, m, _ in r_notes]}
        ev["wall_s"] = round(ev.get("wall_s", 0) + time.time() - t0, 3)
        with open(evp, "w") as f:
            json.dump(ev, f, indent=1, default=str)
    except Exception:
        pass
    if bad and not base_keys:
        print("SELFTEST-FAIL property=%s %d variant(s) misbehaved (checker problem, not a violation of the property)" % (pid, bad))
        return 2
    return 0
