"""E6e - how many bits of keyed MAC output a round function returns, decided by abstract interpretation.

`BitwiseFFX.round(key, i, s, output_len)` has to return exactly `output_len` bits, every one of them a bit of
HMAC output (no constant padding, no cut-off that leaves leading zeros): with fewer MAC bits than the half is wide the
Feistel network is not keyed for narrow domains (a constant round function makes it the identity for an even
round count).  The reference shape - accumulate digests until `len(result) >= output_len`, then
`get_higher_bits(output_len)` - is recognised by R15.4 directly; this module decides the same for other
spellings (byte-oriented, repeated digest, shifts) without running anything of the repository:

* integers are interpreted concretely, on a grid (`output_len` 1..GRID_BITS, digest sizes 16/20/32/64,
  a few widths of `s`);
* bit / byte strings are abstracted to (length, "every bit is MAC output");
* everything else (the MAC input, `struct.pack`, the key) is opaque; an opaque value where a length or a
  material value is needed makes the analysis give up (-> the caller reports the unknown shape).

Loops are unrolled while their condition is decidable, at most MAX_STEPS statements per grid point.
"""
import ast
import math

GRID_BITS = 300
DIGESTS = (16, 20, 32, 64)
MAX_STEPS = 4000


class GiveUp(Exception):
    pass


class Opaque:
    def __repr__(self):
        return "<opaque>"


OPAQUE = Opaque()


class Mac:
    def __init__(self, keyed, size):
        self.keyed, self.size = keyed, size


class MBytes:      # bytes, n long; mat: every byte is MAC output
    def __init__(self, n, mat):
        self.n, self.mat = n, mat


class MHex:
    def __init__(self, n, mat):
        self.n, self.mat = n, mat


class MInt:        # a non-negative integer whose top `bits` bits are MAC output when mat (it may have leading zero bits by chance only)
    def __init__(self, bits, mat):
        self.bits, self.mat = bits, mat


class Bits:        # a Bitset of `n` bits
    def __init__(self, n, mat):
        self.n, self.mat = n, mat


class _Break(Exception):
    pass


class _Continue(Exception):
    pass


class _Return(Exception):
    def __init__(self, v):
        self.v = v


class Interp:
    def __init__(self, fn, env, key_param):
        self.fn, self.env, self.key_param = fn, dict(env), key_param
        self.steps = 0

    # ------------------------------------------------------------------ statements
    def run(self):
        try:
            self.block(self.fn.body)
        except _Return as r:
            return r.v
        return None

    def block(self, body):
        for st in body:
            self.stmt(st)

    def tick(self):
        self.steps += 1
        if self.steps > MAX_STEPS:
            raise GiveUp("more than %d steps" % MAX_STEPS)

    def stmt(self, st):
        self.tick()
        if isinstance(st, ast.Expr):
            if isinstance(st.value, ast.Constant):
                return
            self.ev(st.value)
        elif isinstance(st, ast.Assign):
            v = self.ev(st.value)
            for t in st.targets:
                self.bind(t, v)
        elif isinstance(st, ast.AnnAssign):
            if st.value is not None:
                self.bind(st.target, self.ev(st.value))
        elif isinstance(st, ast.AugAssign):
            cur = self.ev(ast.copy_location(ast.Name(id=st.target.id, ctx=ast.Load()), st.target)) if isinstance(st.target, ast.Name) else None
            if cur is None:
                raise GiveUp("augmented assignment to %s" % ast.unparse(st.target))
            self.bind(st.target, self.binop(type(st.op), cur, self.ev(st.value)))
        elif isinstance(st, ast.If):
            self.block(st.body if self.truth(self.ev(st.test)) else st.orelse)
        elif isinstance(st, ast.While):
            while self.truth(self.ev(st.test)):
                self.tick()
                try:
                    self.block(st.body)
                except _Break:
                    return
                except _Continue:
                    continue
            self.block(st.orelse)
        elif isinstance(st, ast.For):
            it = self.ev(st.iter)
            if not isinstance(it, (range, list, tuple)):
                raise GiveUp("loop over %s" % ast.unparse(st.iter))
            for x in it:
                self.tick()
                self.bind(st.target, x)
                try:
                    self.block(st.body)
                except _Break:
                    return
                except _Continue:
                    continue
            self.block(st.orelse)
        elif isinstance(st, ast.Break):
            raise _Break()
        elif isinstance(st, ast.Continue):
            raise _Continue()
        elif isinstance(st, ast.Return):
            raise _Return(self.ev(st.value) if st.value is not None else None)
        elif isinstance(st, ast.Pass):
            return
        elif isinstance(st, ast.Assert):
            return
        elif isinstance(st, ast.Raise):
            raise GiveUp("raises on a grid point (%s)" % ast.unparse(st)[:60])
        else:
            raise GiveUp("statement %s" % type(st).__name__)

    def bind(self, t, v):
        if isinstance(t, ast.Name):
            self.env[t.id] = v
        elif isinstance(t, (ast.Tuple, ast.List)) and isinstance(v, (tuple, list)) and len(v) == len(t.elts):
            for e, x in zip(t.elts, v):
                self.bind(e, x)
        else:
            raise GiveUp("store to %s" % ast.unparse(t))

    @staticmethod
    def truth(v):
        if isinstance(v, (bool, int, float)):
            return bool(v)
        if isinstance(v, (Bits, MBytes)):
            return v.n > 0
        if isinstance(v, (list, tuple)):
            return bool(v)
        raise GiveUp("truth of an abstract value")

    # ------------------------------------------------------------------ expressions
    def ev(self, e):
        self.tick()
        if isinstance(e, ast.Constant):
            if isinstance(e.value, bytes):
                return MBytes(len(e.value), len(e.value) == 0)
            return e.value
        if isinstance(e, ast.Name):
            if e.id in self.env:
                return self.env[e.id]
            if e.id in ("True", "False", "None"):
                return {"True": True, "False": False, "None": None}[e.id]
            return OPAQUE
        if isinstance(e, ast.Attribute):
            d = _dotted(e)
            if d in self.env:
                return self.env[d]
            base = self.ev(e.value)
            if isinstance(base, Mac) and e.attr == "digest_size":
                return base.size
            return OPAQUE
        if isinstance(e, (ast.Tuple, ast.List)):
            return [self.ev(x) for x in e.elts]
        if isinstance(e, ast.BinOp):
            return self.binop(type(e.op), self.ev(e.left), self.ev(e.right))
        if isinstance(e, ast.UnaryOp):
            v = self.ev(e.operand)
            if isinstance(e.op, ast.Not):
                return not self.truth(v)
            if isinstance(v, (int, float)) and not isinstance(v, bool):
                return {ast.USub: lambda x: -x, ast.UAdd: lambda x: +x, ast.Invert: lambda x: ~x}[type(e.op)](v)
            raise GiveUp("unary operator on an abstract value")
        if isinstance(e, ast.BoolOp):
            if isinstance(e.op, ast.And):
                v = True
                for x in e.values:
                    v = self.ev(x)
                    if not self.truth(v):
                        return v
                return v
            v = False
            for x in e.values:
                v = self.ev(x)
                if self.truth(v):
                    return v
            return v
        if isinstance(e, ast.Compare):
            left = self.ev(e.left)
            for op, r in zip(e.ops, e.comparators):
                right = self.ev(r)
                if not (isinstance(left, (int, float)) and isinstance(right, (int, float))):
                    if isinstance(op, (ast.Is, ast.IsNot)) and (left is None or right is None):
                        res = (left is right) if isinstance(op, ast.Is) else (left is not right)
                        if not res:
                            return False
                        left = right
                        continue
                    raise GiveUp("comparison of abstract values (%s)" % ast.unparse(e)[:60])
                res = {ast.Lt: left < right, ast.LtE: left <= right, ast.Gt: left > right, ast.GtE: left >= right,
                       ast.Eq: left == right, ast.NotEq: left != right}.get(type(op))
                if res is None:
                    raise GiveUp("comparison operator")
                if not res:
                    return False
                left = right
            return True
        if isinstance(e, ast.IfExp):
            return self.ev(e.body) if self.truth(self.ev(e.test)) else self.ev(e.orelse)
        if isinstance(e, ast.Subscript):
            return self.subscript(self.ev(e.value), e.slice)
        if isinstance(e, ast.Call):
            return self.call(e)
        if isinstance(e, ast.JoinedStr):
            return OPAQUE
        if isinstance(e, ast.Starred):
            return OPAQUE
        raise GiveUp("expression %s" % type(e).__name__)

    def subscript(self, v, sl):
        if isinstance(v, (MBytes, Bits)) and isinstance(sl, ast.Slice) and sl.step is None:
            lo = self.ev(sl.lower) if sl.lower is not None else 0
            hi = self.ev(sl.upper) if sl.upper is not None else v.n
            if not (isinstance(lo, int) and isinstance(hi, int)):
                raise GiveUp("abstract slice bound")
            lo = max(0, lo + v.n) if lo < 0 else min(lo, v.n)
            hi = max(0, hi + v.n) if hi < 0 else min(hi, v.n)
            return type(v)(max(0, hi - lo), v.mat)
        if isinstance(v, Opaque):
            return OPAQUE
        raise GiveUp("subscript of %s" % type(v).__name__)

    def binop(self, op, a, b):
        num = lambda x: isinstance(x, (int, float)) and not isinstance(x, bool)
        if num(a) and num(b):
            try:
                return {ast.Add: lambda: a + b, ast.Sub: lambda: a - b, ast.Mult: lambda: a * b, ast.FloorDiv: lambda: a // b, ast.Mod: lambda: a % b,
                        ast.Div: lambda: a / b, ast.Pow: lambda: a ** b if abs(b) < 64 else (_ for _ in ()).throw(GiveUp("large power")),
                        ast.LShift: lambda: a << b if b < 4096 else (_ for _ in ()).throw(GiveUp("large shift")), ast.RShift: lambda: a >> b,
                        ast.BitAnd: lambda: a & b, ast.BitOr: lambda: a | b, ast.BitXor: lambda: a ^ b}[op]()
            except (KeyError, ZeroDivisionError, TypeError, ValueError):
                raise GiveUp("arithmetic")
        if op is ast.Add and isinstance(a, Bits) and isinstance(b, Bits):
            return Bits(a.n + b.n, (a.mat or a.n == 0) and (b.mat or b.n == 0))
        if op is ast.Add and isinstance(a, MBytes) and isinstance(b, MBytes):
            return MBytes(a.n + b.n, (a.mat or a.n == 0) and (b.mat or b.n == 0))
        if op is ast.Mult and isinstance(a, MBytes) and isinstance(b, int):
            return MBytes(a.n * max(0, b), a.mat)
        if op is ast.Mult and isinstance(b, MBytes) and isinstance(a, int):
            return MBytes(b.n * max(0, a), b.mat)
        if op is ast.RShift and isinstance(a, MInt) and isinstance(b, int) and b >= 0:
            return MInt(max(0, a.bits - b), a.mat)      # the top bits stay
        if op is ast.Mod and isinstance(a, str):
            return OPAQUE
        if isinstance(a, Opaque) or isinstance(b, Opaque):
            if isinstance(a, (MInt, Bits)) or isinstance(b, (MInt, Bits)):
                raise GiveUp("MAC output combined with an unknown value")
            return OPAQUE
        raise GiveUp("operator %s on %s, %s" % (op.__name__, type(a).__name__, type(b).__name__))

    def call(self, e):
        d = _dotted(e.func) or ""
        args = [self.ev(a) for a in e.args if not isinstance(a, ast.Starred)]
        kw = {k.arg: self.ev(k.value) for k in e.keywords if k.arg}
        if d in ("hmac.new", "hmac.HMAC"):
            keyed = bool(e.args) and isinstance(e.args[0], ast.Name) and e.args[0].id == self.key_param
            return Mac(keyed, self.env["__digest_size__"])
        if d == "hmac.digest":
            keyed = bool(e.args) and isinstance(e.args[0], ast.Name) and e.args[0].id == self.key_param
            return MBytes(self.env["__digest_size__"], keyed)
        if isinstance(e.func, ast.Attribute):
            recv = self.ev(e.func.value)
            m = e.func.attr
            if isinstance(recv, Mac):
                if m == "digest":
                    return MBytes(recv.size, recv.keyed)
                if m == "hexdigest":
                    return MHex(recv.size, recv.keyed)
                if m in ("update",):
                    return None
                if m == "copy":
                    return recv
            if isinstance(recv, Bits):
                if m in ("get_higher_bits", "get_lower_bits") and len(args) == 1 and isinstance(args[0], int):
                    if args[0] > recv.n or args[0] < 0:
                        raise GiveUp("%s(%d) of %d bits" % (m, args[0], recv.n))
                    return Bits(args[0], recv.mat)
                if m == "concat" and len(args) == 1 and isinstance(args[0], Bits):
                    return Bits(recv.n + args[0].n, (recv.mat or recv.n == 0) and (args[0].mat or args[0].n == 0))
                if m == "bit_length":
                    raise GiveUp("bit_length of MAC output is data-dependent")
            if isinstance(recv, MBytes) and m == "hex":
                return MHex(recv.n, recv.mat)
            if d == "int.from_bytes" and args and isinstance(args[0], MBytes):
                order = args[1] if len(args) > 1 else kw.get("byteorder", "big")
                if order != "big":
                    raise GiveUp("little-endian reading of MAC output")
                return MInt(8 * args[0].n, args[0].mat)
            if d in ("math.ceil", "math.floor") and len(args) == 1 and isinstance(args[0], (int, float)):
                return getattr(math, m)(args[0])
            if d == "math.log2" and len(args) == 1 and isinstance(args[0], (int, float)) and args[0] > 0:
                return math.log2(args[0])
            if d.startswith("struct.") or isinstance(recv, Opaque):
                if any(isinstance(a, (MInt, Bits)) for a in args):
                    raise GiveUp("MAC output handed to an unknown call %s" % d)
                return OPAQUE
            raise GiveUp("method %s of %s" % (m, type(recv).__name__))
        if d == "len" and len(args) == 1:
            if isinstance(args[0], (Bits, MBytes)):
                return args[0].n
            if isinstance(args[0], MHex):
                return 2 * args[0].n
            if isinstance(args[0], (list, tuple)):
                return len(args[0])
            raise GiveUp("len of an unknown value")
        if d == "int" and args:
            if isinstance(args[0], MHex) and (len(args) == 2 and args[1] == 16):
                return MInt(8 * args[0].n, args[0].mat)
            if isinstance(args[0], (int, float)) and len(args) == 1:
                return int(args[0])
            if isinstance(args[0], Bits) and len(args) == 1:
                return MInt(args[0].n, args[0].mat)
            raise GiveUp("int(%s)" % type(args[0]).__name__)
        if d in ("min", "max", "abs", "divmod", "range", "round", "bool") and all(isinstance(a, (int, float)) for a in args) and not kw:
            try:
                return {"min": min, "max": max, "abs": abs, "divmod": divmod, "range": range, "round": round, "bool": bool}[d](*args)
            except (TypeError, ValueError, ZeroDivisionError):
                raise GiveUp("arithmetic")
        if d == "Bitset":
            val = args[0] if args else kw.get("value")
            ln = args[1] if len(args) > 1 else kw.get("length", 0)
            if not isinstance(ln, int):
                raise GiveUp("Bitset of abstract length")
            if isinstance(val, int) and not isinstance(val, bool):
                n = ln if ln else (val.bit_length() if val > 0 else 0)
                return Bits(n, n == 0)
            if isinstance(val, Bits):
                val = MInt(val.n, val.mat)
            elif isinstance(val, MBytes):
                val = MInt(8 * val.n, val.mat)      # int_from_bytes, big-endian
            if isinstance(val, MInt):
                if ln == 0:
                    raise GiveUp("Bitset of MAC output without explicit length (data-dependent width)")
                if ln < val.bits:
                    raise GiveUp("Bitset(%d bits of MAC output, %d) raises for most values" % (val.bits, ln))
                return Bits(ln, val.mat and ln == val.bits)      # wider than the material: constant leading zeros
            raise GiveUp("Bitset(%s)" % type(val).__name__)
        if d == "int_from_bytes" and len(args) == 1 and isinstance(args[0], MBytes):
            return MInt(8 * args[0].n, args[0].mat)
        if d in ("bytes", "bytearray") and len(args) == 1 and isinstance(args[0], MBytes):
            return args[0]
        if d in ("bytes", "bytearray") and not args:
            return MBytes(0, True)
        if any(isinstance(a, (MInt, Bits, MBytes, MHex, Mac)) for a in args):
            raise GiveUp("MAC output handed to an unknown call %s" % (d or ast.unparse(e.func)))
        return OPAQUE


def _dotted(e):
    parts = []
    while isinstance(e, ast.Attribute):
        parts.append(e.attr)
        e = e.value
    if isinstance(e, ast.Name):
        parts.append(e.id)
        return ".".join(reversed(parts))
    return None


def full_width_round(fn, key_param, half_param, width_param, digest_attr="self.digest_size"):
    """(True, n grid points) if on every grid point the function returns exactly `width_param` bits, all of them keyed MAC output;
    (False, description of the first grid point where it does not); raises GiveUp when a construct is not understood."""
    n = 0
    for ds in DIGESTS:
        for w, given in [(w, w) for w in range(1, GRID_BITS + 1)] + [(w, 0) for w in (1, 7, 8, 9, 64, 161)]:      # given 0: the default, len(half)
            env = {width_param: given, digest_attr: ds, "__digest_size__": ds, half_param: Bits(w, False)}
            it = Interp(fn, env, key_param)
            v = it.run()
            n += 1
            if not isinstance(v, Bits):
                return False, "for a requested width of %d bits (digest of %d bytes) it returns no bit string" % (w, ds)
            if v.n != w:
                return False, "for a requested width of %d bits (digest of %d bytes) it returns %d bits" % (w, ds, v.n)
            if not v.mat:
                return False, ("for a requested width of %d bits (digest of %d bytes) not every returned bit is keyed MAC output (constant bits, or fewer MAC bits than "
                               "the width)" % (w, ds))
    return True, n
