"""E2 - statement-level control-flow graphs, dominators, path enumeration, forward dataflow.

Nodes are statements (or the header expression of a compound statement).  Exceptional edges
are created for explicit `raise`, for `assert`, and from every node inside a `try` body to
each of its handlers.  `finally` bodies are duplicated per continuation (normal / exception /
return / break / continue) so that paths stay precise.
"""
import ast

from .model import unparse, short


class Node:
    __slots__ = ("id", "kind", "ast", "stmt", "has_await", "tag")

    def __init__(self, id, kind, astnode, stmt):
        self.id = id
        self.kind = kind  # entry exit raise stmt test for with except return raise_stmt
        self.ast = astnode  # expression or statement represented by this node
        self.stmt = stmt  # the ast statement this node belongs to
        self.has_await = False
        self.tag = None

    @property
    def line(self):
        return getattr(self.stmt, "lineno", 0) if self.stmt is not None else 0

    def __repr__(self):
        return "<N%d %s L%s %s>" % (self.id, self.kind, self.line, short(self.ast, 50) if self.ast is not None else "")


def _contains_await(node):
    for n in ast.walk(node):
        if isinstance(n, ast.Await):
            return True
        if isinstance(n, (ast.FunctionDef, ast.AsyncFunctionDef, ast.Lambda)) and n is not node:
            continue
    return False


def header_exprs(stmt):
    """Expressions evaluated by the node that represents `stmt` itself (not its nested blocks)."""
    if isinstance(stmt, (ast.If, ast.While)):
        return [stmt.test]
    if isinstance(stmt, (ast.For, ast.AsyncFor)):
        return [stmt.iter]
    if isinstance(stmt, (ast.With, ast.AsyncWith)):
        return [i.context_expr for i in stmt.items]
    if isinstance(stmt, ast.Try):
        return []
    if isinstance(stmt, (ast.FunctionDef, ast.AsyncFunctionDef, ast.ClassDef)):
        return []
    if isinstance(stmt, ast.ExceptHandler):
        return [stmt.type] if stmt.type is not None else []
    if hasattr(ast, "Match") and isinstance(stmt, ast.Match):
        return [stmt.subject]
    return [stmt]


class CFG:
    def __init__(self, fnode):
        self.fnode = fnode
        self.nodes = []
        self.succ = {}
        self.pred = {}
        self.entry = self._new("entry", None, None).id
        self.exit = self._new("exit", None, None).id
        self.raise_exit = self._new("raise", None, None).id
        self._loops = []  # (break_sink list, continue target id)
        self._handlers = []  # stack of lists of handler-head ids (innermost last); None marks function level
        self._finals = []  # stack of finalbody statement lists
        body = fnode.body if not isinstance(fnode, ast.Lambda) else [ast.Return(value=fnode.body)]
        outs = self._block(body, [(self.entry, None)])
        self._connect(outs, self.exit)
        self._by_stmt = {}
        for n in self.nodes:
            if n.stmt is not None:
                self._by_stmt.setdefault(id(n.stmt), []).append(n.id)
        self._dom = None
        self._pdom = None

    # ------------------------------------------------------------------ build
    def _new(self, kind, astnode, stmt):
        n = Node(len(self.nodes), kind, astnode, stmt)
        self.nodes.append(n)
        self.succ[n.id] = []
        self.pred[n.id] = []
        if astnode is not None:
            if kind in ("for",) and isinstance(stmt, ast.AsyncFor):
                n.has_await = True
            elif kind == "with" and isinstance(stmt, ast.AsyncWith):
                n.has_await = True
            else:
                for e in (header_exprs(stmt) if astnode is stmt else [astnode]):
                    if e is not None and _contains_await(e):
                        n.has_await = True
        return n

    def _edge(self, a, b, label=None):
        if (b, label) not in self.succ[a]:
            self.succ[a].append((b, label))
            self.pred[b].append((a, label))

    def _connect(self, outs, target):
        for (a, lab) in outs:
            self._edge(a, target, lab)

    def _exc_targets(self):
        """Where an exception raised here goes: innermost handlers, else function raise exit."""
        if self._handlers and self._handlers[-1] is not None:
            return list(self._handlers[-1])
        return [self.raise_exit]

    def _add_exc_edges(self, nid, label="exc"):
        if self._handlers and self._handlers[-1] is not None:
            for h in self._handlers[-1]:
                self._edge(nid, h, label)

    def _block(self, stmts, preds):
        for st in stmts:
            preds = self._stmt(st, preds)
        return preds

    def _simple(self, kind, st, preds, astnode=None):
        n = self._new(kind, astnode if astnode is not None else st, st)
        self._connect(preds, n.id)
        self._add_exc_edges(n.id)
        return n

    def _run_finals(self, preds, upto=0):
        """Duplicate pending finally bodies (innermost first) for a non-local exit."""
        for i in range(len(self._finals) - 1, upto - 1, -1):
            fin, hdepth = self._finals[i]
            saved_f, saved_h = self._finals, self._handlers
            self._finals = self._finals[:i]
            self._handlers = self._handlers[:hdepth]
            preds = self._block(fin, preds)
            self._finals, self._handlers = saved_f, saved_h
        return preds

    def _stmt(self, st, preds):
        if isinstance(st, ast.Return):
            n = self._simple("return", st, preds)
            outs = self._run_finals([(n.id, None)])
            self._connect(outs, self.exit)
            return []
        if isinstance(st, ast.Raise):
            n = self._new("raise_stmt", st, st)
            self._connect(preds, n.id)
            if self._handlers and self._handlers[-1] is not None:
                for h in self._handlers[-1]:
                    self._edge(n.id, h, "exc")
            else:
                outs = self._run_finals([(n.id, "exc")])
                self._connect(outs, self.raise_exit)
            return []
        if isinstance(st, ast.Assert):
            n = self._simple("stmt", st, preds)
            if not (self._handlers and self._handlers[-1] is not None):
                self._edge(n.id, self.raise_exit, "assert")
            return [(n.id, None)]
        if isinstance(st, ast.If):
            n = self._simple("test", st, preds, st.test)
            t = self._block(st.body, [(n.id, True)])
            f = self._block(st.orelse, [(n.id, False)])
            return t + f
        if isinstance(st, ast.While):
            n = self._simple("test", st, preds, st.test)
            brk = []
            self._loops.append((brk, n.id, len(self._finals)))
            body_out = self._block(st.body, [(n.id, True)])
            self._loops.pop()
            self._connect(body_out, n.id)
            const_true = isinstance(st.test, ast.Constant) and bool(st.test.value)
            outs = [] if const_true else self._block(st.orelse, [(n.id, False)])
            return outs + brk
        if isinstance(st, (ast.For, ast.AsyncFor)):
            n = self._simple("for", st, preds, st)
            brk = []
            self._loops.append((brk, n.id, len(self._finals)))
            body_out = self._block(st.body, [(n.id, True)])
            self._loops.pop()
            self._connect(body_out, n.id)
            outs = self._block(st.orelse, [(n.id, False)])
            return outs + brk
        if isinstance(st, ast.Break):
            n = self._simple("stmt", st, preds)
            brk, _, fdepth = self._loops[-1]
            brk.extend(self._run_finals([(n.id, None)], fdepth))
            return []
        if isinstance(st, ast.Continue):
            n = self._simple("stmt", st, preds)
            _, target, fdepth = self._loops[-1]
            self._connect(self._run_finals([(n.id, None)], fdepth), target)
            return []
        if isinstance(st, (ast.With, ast.AsyncWith)):
            n = self._simple("with", st, preds, st)
            return self._block(st.body, [(n.id, None)])
        if isinstance(st, ast.Try) or (hasattr(ast, "TryStar") and isinstance(st, ast.TryStar)):
            return self._try(st, preds)
        if hasattr(ast, "Match") and isinstance(st, ast.Match):
            n = self._simple("test", st, preds, st.subject)
            outs = []
            has_default = False
            for case in st.cases:
                outs += self._block(case.body, [(n.id, ("case", unparse(case.pattern)))])
                if isinstance(case.pattern, ast.MatchAs) and case.pattern.pattern is None and case.guard is None:
                    has_default = True
            if not has_default:
                outs.append((n.id, ("case", None)))
            return outs
        # simple statements, nested defs
        n = self._simple("stmt", st, preds)
        return [(n.id, None)]

    def _try(self, st, preds):
        has_final = bool(st.finalbody)
        heads = []
        for h in st.handlers:
            hn = self._new("except", h, h)
            heads.append(hn)
        if has_final:
            self._finals.append((st.finalbody, len(self._handlers)))
        # body: exceptions go to handlers (if any) else propagate through finally
        if heads:
            self._handlers.append([h.id for h in heads])
            body_out = self._block(st.body, preds)
            self._handlers.pop()
        else:
            # try/finally without handlers: exceptions inside body propagate (through the finalbody)
            first = len(self.nodes)
            body_out = self._block(st.body, preds)
            if has_final and not (self._handlers and self._handlers[-1] is not None):
                pass
        body_out = self._block(st.orelse, body_out)
        outs = list(body_out)
        # handlers: exceptions inside a handler go to outer handlers
        for hn, h in zip(heads, st.handlers):
            outs += self._block(h.body, [(hn.id, None)])
        # an exception no handler catches propagates outward: conservative only if no bare/Exception handler
        catch_all = any(h.type is None or (isinstance(h.type, ast.Name) and h.type.id in ("Exception", "BaseException"))
                        for h in st.handlers)
        if has_final:
            self._finals.pop()
            # normal continuation
            outs = self._block(st.finalbody, outs)
            # exceptional continuation (uncaught): from a synthetic node so that the finalbody is on the path
            if not catch_all:
                src = [n.id for n in self.nodes if n.stmt is not None and self._inside(n.stmt, st.body)]
                if src:
                    syn = self._new("stmt", None, st)
                    syn.tag = "uncaught"
                    for s in src:
                        self._edge(s, syn.id, "exc")
                    fouts = self._block(st.finalbody, [(syn.id, None)])
                    for tgt in self._exc_targets():
                        self._connect(fouts, tgt)
        elif not catch_all and heads:
            # uncaught exception types escape to outer handlers / raise exit (kept out of normal paths)
            src = [n.id for n in self.nodes if n.stmt is not None and self._inside(n.stmt, st.body)]
            for s in src:
                for tgt in self._exc_targets():
                    self._edge(s, tgt, "exc-uncaught")
        return outs

    @staticmethod
    def _inside(stmt, block):
        for b in block:
            for x in ast.walk(b):
                if x is stmt:
                    return True
        return False

    # --------------------------------------------------------------- queries
    def nodes_of(self, astnode):
        """CFG node ids whose statement is (or whose expression is) the given ast node."""
        res = list(self._by_stmt.get(id(astnode), []))
        if not res:
            for n in self.nodes:
                if n.ast is astnode:
                    res.append(n.id)
        return res

    def node_of_expr(self, expr):
        """CFG node ids of the statement enclosing an expression."""
        from .model import enclosing_stmt, parent
        st = enclosing_stmt(expr)
        # header of compound statement or the statement node itself
        ids = self._by_stmt.get(id(st), [])
        if ids:
            # for compound statements choose header nodes only when expr is in the header
            return ids
        return []

    def reachable(self, start=None, skip_exc=False):
        start = self.entry if start is None else start
        seen = {start}
        stack = [start]
        while stack:
            a = stack.pop()
            for b, lab in self.succ[a]:
                if skip_exc and isinstance(lab, str) and lab.startswith("exc"):
                    continue
                if b not in seen:
                    seen.add(b)
                    stack.append(b)
        return seen

    def dominators(self):
        if self._dom is None:
            self._dom = _dominators(self.entry, self.succ, self.pred, self.reachable())
        return self._dom

    def dominates(self, a, b):
        """Every path from entry to b passes a."""
        d = self.dominators()
        return b in d and a in d[b]

    def postdominators(self, exits=None):
        """Post-dominators w.r.t. the normal exit (exceptional exit ignored unless given)."""
        key = tuple(sorted(exits)) if exits else None
        if self._pdom is None:
            self._pdom = {}
        if key not in self._pdom:
            ex = list(exits) if exits else [self.exit]
            # virtual sink
            rsucc = {n: [(p, l) for (p, l) in self.pred[n]] for n in self.succ}
            rpred = {n: [(s, l) for (s, l) in self.succ[n]] for n in self.succ}
            sink = -1
            rsucc[sink] = [(e, None) for e in ex]
            rpred[sink] = []
            for e in ex:
                rpred[e] = rpred[e] + [(sink, None)]
            reach = {sink}
            st = [sink]
            while st:
                a = st.pop()
                for b, _ in rsucc[a]:
                    if b not in reach:
                        reach.add(b)
                        st.append(b)
            self._pdom[key] = _dominators(sink, rsucc, rpred, reach)
        return self._pdom[key]

    def postdominates(self, a, b, exits=None):
        """Every path from b to the (normal) exit passes a."""
        d = self.postdominators(exits)
        return b in d and a in d[b]

    def paths(self, start=None, ends=None, limit=20000, follow=None):
        """Enumerate acyclic-ish paths (each edge at most once per path) from start to any of ends."""
        start = self.entry if start is None else start
        ends = set(ends if ends is not None else [self.exit, self.raise_exit])
        out = []
        stack = [(start, (start,), frozenset())]
        while stack:
            node, path, used = stack.pop()
            if node in ends and len(path) > 1:
                out.append(path)
                if len(out) >= limit:
                    raise OverflowError("too many paths")
                continue
            for (b, lab) in self.succ[node]:
                if follow is not None and not follow(node, b, lab):
                    continue
                e = (node, b, lab)
                if e in used:
                    continue
                stack.append((b, path + (b,), used | {e}))
        return out

    def must_pass(self, src, through, exits=None, skip_exc=True):
        """On every path from src to a (normal) exit, some node in `through` is visited."""
        through = set(through)
        exits = set(exits) if exits else {self.exit}
        seen = {src}
        st = [src]
        while st:
            a = st.pop()
            if a in exits:
                return False
            for b, lab in self.succ[a]:
                if skip_exc and isinstance(lab, str) and lab.startswith("exc"):
                    continue
                if b in through or b in seen:
                    continue
                seen.add(b)
                st.append(b)
        return True

    def can_reach(self, a, b, avoid=(), skip_exc=False):
        avoid = set(avoid)
        seen = {a}
        st = [a]
        while st:
            x = st.pop()
            for y, lab in self.succ[x]:
                if skip_exc and isinstance(lab, str) and lab.startswith("exc"):
                    continue
                if y == b:
                    return True
                if y in seen or y in avoid:
                    continue
                seen.add(y)
                st.append(y)
        return False


def _dominators(entry, succ, pred, nodes):
    nodes = set(nodes)
    dom = {n: set(nodes) for n in nodes}
    dom[entry] = {entry}
    changed = True
    order = sorted(nodes)
    while changed:
        changed = False
        for n in order:
            if n == entry:
                continue
            ps = [p for (p, _) in pred[n] if p in nodes]
            if not ps:
                new = {n}
            else:
                new = set.intersection(*(dom[p] for p in ps)) | {n}
            if new != dom[n]:
                dom[n] = new
                changed = True
    return dom


# ----------------------------------------------------------------------------- dataflow
def forward(cfg, init, transfer, join, refine=None, bottom=None, max_iter=10000):
    """Generic forward dataflow.  State at node = state *before* executing the node.

    transfer(node, state) -> state after;  refine(node, label, state) -> state on that out-edge or None
    (None = edge infeasible).  Returns (in_states, out_states) dicts.
    """
    ins = {cfg.entry: init}
    outs = {}
    work = [cfg.entry]
    it = 0
    while work:
        it += 1
        if it > max_iter:
            raise RuntimeError("dataflow did not converge")
        n = work.pop()
        s = ins.get(n, bottom)
        if s is bottom and n != cfg.entry:
            continue
        o = transfer(cfg.nodes[n], s)
        outs[n] = o
        for (b, lab) in cfg.succ[n]:
            so = o
            if refine is not None:
                so = refine(cfg.nodes[n], lab, o)
                if so is None:
                    continue
            if b in ins:
                j = join(ins[b], so)
                if j != ins[b]:
                    ins[b] = j
                    work.append(b)
            else:
                ins[b] = so
                work.append(b)
    return ins, outs


_cfg_cache = {}


def cfg_of(fnode):
    k = id(fnode)
    if k not in _cfg_cache:
        _cfg_cache[k] = (fnode, CFG(fnode))
    return _cfg_cache[k][1]


def calls_in_order(node):
    """Call nodes inside an expression/statement header in evaluation order (arguments before the call)."""
    out = []

    def visit(n):
        if isinstance(n, (ast.FunctionDef, ast.AsyncFunctionDef, ast.Lambda, ast.ClassDef)):
            return
        if isinstance(n, ast.Call):
            visit(n.func)
            for a in n.args:
                visit(a)
            for k in n.keywords:
                visit(k.value)
            out.append(n)
            return
        for c in ast.iter_child_nodes(n):
            visit(c)

    if isinstance(node, ast.stmt):
        for e in header_exprs(node):
            if e is node:
                for c in ast.iter_child_nodes(node):
                    visit(c)
            elif e is not None:
                visit(e)
    else:
        visit(node)
    return out
