"""E4 - use-def term reconstruction.

For an expression at a program point, follow flow-sensitive reaching definitions (computed on the
statement CFG) and rebuild a *derivation term*: nested tuples that say from which parameters,
configuration slots, primitives, constants, counters and loop elements a value is computed.

Term grammar (tuples; first component is the tag):
  ('const', v)                      literal
  ('param', name)                   function parameter
  ('cfg', slot)                     self.config.<slot>            (data slot)
  ('prim', slot, method, args)      self.config.<slot>(args) / self.config.<slot>.<method>(args)
  ('cfgdyn', term)                  self.config[<term>]
  ('attr', base, name)              attribute load
  ('call', qualname, args, kwargs)  resolved or dotted call
  ('mcall', recv, name, args, kwargs)  method call on a term
  ('binop', op, l, r) ('unop', op, x) ('cmp', ops, operands) ('boolop', op, vals) ('ifexp', t, a, b)
  ('sub', base, index) ('slice', base, lo, hi, step)
  ('tuple', elts) ('list', elts) ('dict', items) ('set', elts)
  ('elem', seq)                     an element of iterating seq
  ('proj', t, i)                    i-th component of a tuple-valued term
  ('piece', t, i, lens)             i-th piece of split_bytes_given_slice_len(t, lens)
  ('counter', start, step)          c = start ... c += step  /  enumerate index
  ('rangevar', args)                loop variable of range(args)
  ('phi', frozenset(terms))         several reaching definitions
  ('rec', name)                     loop-carried self reference (cut)
  ('comp', kind, elt, gens)         comprehension; gens = ((target_term_names, iter_term, conds), ...)
  ('cont', name, init, muts)        local container: creation term + frozenset of mutation facts
  ('global', module, name) ('lambda', params, body) ('fstr',) ('unk', text)
"""
import ast

from .model import dotted, unparse, short, enclosing_function
from .cfg import cfg_of, forward

MUTATORS = {"append", "extend", "insert", "add", "update", "setdefault", "pop", "remove", "clear", "sort",
            "reverse", "popitem", "discard", "appendleft"}


class Def:
    __slots__ = ("var", "kind", "node", "stmt", "value", "path", "id")

    def __init__(self, var, kind, node, stmt, value=None, path=()):
        self.var, self.kind, self.node, self.stmt, self.value, self.path = var, kind, node, stmt, value, path
        self.id = None

    def __repr__(self):
        return "<def %s %s@%s%s>" % (self.var, self.kind, self.node, self.path or "")


def _targets(t, path=()):
    """(name, path) pairs of an assignment target (names only)."""
    if isinstance(t, ast.Name):
        yield t.id, path
    elif isinstance(t, (ast.Tuple, ast.List)):
        for i, e in enumerate(t.elts):
            yield from _targets(e, path + (i,))
    elif isinstance(t, ast.Starred):
        yield from _targets(t.value, path + ("*",))


class FnTerms:
    def __init__(self, repo, fi):
        self.repo, self.fi = repo, fi
        self.cfg = cfg_of(fi.node)
        self.defs = []
        self.node_defs = {}  # node id -> [Def]
        self._collect_defs()
        self._solve()
        self._memo = {}
        self._active = set()
        self._muts = None

    # ------------------------------------------------------------------ definitions
    def _add(self, d):
        d.id = len(self.defs)
        self.defs.append(d)
        self.node_defs.setdefault(d.node, []).append(d)

    def _collect_defs(self):
        for p in self.fi.params:
            self._add(Def(p, "param", self.cfg.entry, None))
        for n in self.cfg.nodes:
            st = n.stmt
            if st is None or n.ast is None:
                continue
            if n.kind == "stmt":
                if isinstance(st, ast.Assign):
                    for t in st.targets:
                        for name, path in _targets(t):
                            self._add(Def(name, "assign", n.id, st, st.value, path))
                elif isinstance(st, ast.AnnAssign) and st.value is not None:
                    for name, path in _targets(st.target):
                        self._add(Def(name, "assign", n.id, st, st.value, path))
                elif isinstance(st, ast.AugAssign):
                    for name, path in _targets(st.target):
                        self._add(Def(name, "aug", n.id, st, st.value, path))
                elif isinstance(st, (ast.Import, ast.ImportFrom)):
                    for a in st.names:
                        self._add(Def((a.asname or a.name).split(".")[0], "import", n.id, st))
                elif isinstance(st, (ast.FunctionDef, ast.AsyncFunctionDef, ast.ClassDef)):
                    self._add(Def(st.name, "def", n.id, st))
            elif n.kind == "for":
                for name, path in _targets(st.target):
                    self._add(Def(name, "for", n.id, st, st.iter, path))
            elif n.kind == "with":
                for i, item in enumerate(st.items):
                    if item.optional_vars is not None:
                        for name, path in _targets(item.optional_vars):
                            self._add(Def(name, "with", n.id, st, item.context_expr, path))
            elif n.kind == "except":
                if getattr(st, "name", None):
                    self._add(Def(st.name, "except", n.id, st))
            # walrus anywhere in the node's expression
            for w in ast.walk(n.ast if n.kind == "test" else st) if n.kind in ("test", "stmt") else ():
                if isinstance(w, ast.NamedExpr) and isinstance(w.target, ast.Name):
                    self._add(Def(w.target.id, "assign", n.id, st, w.value, ()))

    def _solve(self):
        cfg = self.cfg
        gen = {}
        for nid, ds in self.node_defs.items():
            g = {}
            for d in ds:
                g.setdefault(d.var, set()).add(d.id)
            gen[nid] = g

        def transfer(node, st):
            g = gen.get(node.id)
            if not g or node.id == cfg.entry:
                return st
            new = dict(st)
            for var, ids in g.items():
                new[var] = frozenset(ids)
            return new

        def join(a, b):
            if a is b:
                return a
            out = dict(a)
            for k, v in b.items():
                out[k] = (out[k] | v) if k in out else v
            return out
        init = {}
        for d in self.node_defs.get(cfg.entry, []):
            init[d.var] = frozenset({d.id})
        self.rd_in, self.rd_out = forward(cfg, init, transfer, join)

    def reaching(self, name, nid):
        return sorted(self.rd_in.get(nid, {}).get(name, ()))

    # ------------------------------------------------------------------ mutation facts of local containers
    def mutations(self):
        """name -> list of (node id, kind, args exprs, stmt)"""
        if self._muts is not None:
            return self._muts
        muts = {}
        for n in self.cfg.nodes:
            st = n.stmt
            if st is None or n.ast is None:
                continue
            root = n.ast if n.kind == "test" else st
            if n.kind not in ("stmt", "test", "return", "for", "with"):
                continue
            exprs = [root] if n.kind in ("stmt", "test", "return") else ([st.iter] if n.kind == "for" else [i.context_expr for i in st.items])
            for ex in exprs:
                for c in ast.walk(ex):
                    if isinstance(c, (ast.FunctionDef, ast.AsyncFunctionDef, ast.Lambda)) and c is not ex:
                        continue
                    if isinstance(c, ast.Call) and isinstance(c.func, ast.Attribute) and c.func.attr in MUTATORS:
                        base = c.func.value
                        root_name, subs = _root_name(base)
                        if root_name:
                            muts.setdefault(root_name, []).append((n.id, c.func.attr, c, subs))
                    if isinstance(c, ast.Call) and dotted(c.func) in ("random.shuffle",) and c.args:
                        root_name, subs = _root_name(c.args[0])
                        if root_name:
                            muts.setdefault(root_name, []).append((n.id, "shuffle", c, subs))
            if n.kind == "stmt" and isinstance(st, (ast.Assign, ast.AugAssign, ast.Delete)):
                tgts = st.targets if isinstance(st, (ast.Assign, ast.Delete)) else [st.target]
                for t in tgts:
                    for tt in (t.elts if isinstance(t, (ast.Tuple, ast.List)) else [t]):
                        if isinstance(tt, (ast.Subscript, ast.Attribute)):
                            root_name, subs = _root_name(tt.value)
                            if root_name:
                                kind = "setitem" if isinstance(tt, ast.Subscript) else "setattr"
                                if isinstance(st, ast.Delete):
                                    kind = "delitem"
                                if isinstance(st, ast.AugAssign):
                                    kind = "augitem"
                                muts.setdefault(root_name, []).append((n.id, kind, (tt, st), subs))
        # a mutation through a local name for an element of a container is a mutation of that container:
        #   for i, L_i in enumerate(L_list): L_i.append(x)      lst = table[key]; lst.extend(xs)
        aliases = {}
        stores = {}
        for x in ast.walk(self.fi.node):
            if isinstance(x, ast.Name) and isinstance(x.ctx, ast.Store):
                stores[x.id] = stores.get(x.id, 0) + 1
        for x in ast.walk(self.fi.node):
            if isinstance(x, ast.For):
                it, tgt = x.iter, x.target
                if isinstance(it, ast.Call) and dotted(it.func) == "enumerate" and len(it.args) == 1 and isinstance(it.args[0], ast.Name) and \
                        isinstance(tgt, ast.Tuple) and len(tgt.elts) == 2 and all(isinstance(e_, ast.Name) for e_ in tgt.elts):
                    aliases.setdefault(tgt.elts[1].id, []).append((it.args[0].id, tgt.elts[0], x))
                elif isinstance(it, ast.Name) and isinstance(tgt, ast.Name):
                    aliases.setdefault(tgt.id, []).append((it.id, None, x))
            elif isinstance(x, ast.Assign) and len(x.targets) == 1 and isinstance(x.targets[0], ast.Name) and isinstance(x.value, ast.Subscript) and \
                    isinstance(x.value.value, ast.Name) and not isinstance(x.value.slice, ast.Slice):
                aliases.setdefault(x.targets[0].id, []).append((x.value.value.id, x.value.slice, x))
        for name, al in aliases.items():
            if len(al) != 1 or stores.get(name, 0) != 1 or name not in muts:
                continue
            base, idx, where = al[0]
            if idx is None:
                idx = ast.Name(id="__elem__", ctx=ast.Load())
                ast.copy_location(idx, where)
            for (mn, kind, payload, subs) in list(muts[name]):
                muts.setdefault(base, []).append((mn, kind, payload, [idx] + list(subs)))
        # mutations performed by helpers on objects of this function: nested functions mutate free variables (closures),
        # same-module functions / methods mutate what is passed to them.  They are attributed to the call sites, with the
        # helper's parameters replaced by the arguments passed there.
        if ("muts", self.fi.key) not in _IMPORTING:
            _IMPORTING.add(("muts", self.fi.key))
            try:
                from .cfg import header_exprs
                for n in self.cfg.nodes:
                    if n.stmt is None or n.ast is None:
                        continue
                    root = n.ast if n.kind == "test" else n.stmt
                    if isinstance(root, (ast.FunctionDef, ast.AsyncFunctionDef, ast.ClassDef)):
                        continue
                    for ex in ([root] if n.kind == "test" else [e for e in header_exprs(n.stmt) if e is not None]):
                        for c in ast.walk(ex):
                            if not isinstance(c, ast.Call):
                                continue
                            g = None
                            nested = False
                            if isinstance(c.func, ast.Name) and c.func.id in getattr(self.fi, "nested", {}):
                                g, nested = self.fi.nested[c.func.id], True
                            else:
                                tgt = self.repo.resolve_call(self.fi, c)
                                if hasattr(tgt, "module") and tgt.module.rel.startswith("schemes/") and tgt.module.rel.endswith("construction.py") \
                                        and tgt.key != self.fi.key and not tgt.name.startswith("__"):
                                    g = tgt
                            if g is None or ("muts", g.key) in _IMPORTING:
                                continue
                            gft = fn_terms(self.repo, g)
                            offset = 1 if (g.cls is not None and g.params and g.params[0] in ("self", "cls") and not nested and
                                           not any("staticmethod" in d for d in g.decorators)) else 0
                            for name, ms in gft.mutations().items():
                                for (mn, kind, payload, subs) in ms:
                                    if kind.startswith("nested:"):
                                        continue
                                    target_name = None
                                    if name in g.params and not [i for i in gft.reaching(name, mn) if gft.defs[i].kind != "param"]:
                                        idx = g.params.index(name) - offset
                                        arg = c.args[idx] if 0 <= idx < len(c.args) else next((k.value for k in c.keywords if k.arg == name), None)
                                        if isinstance(arg, ast.Name):
                                            target_name = arg.id
                                    elif nested and name not in g.params and not gft.reaching(name, mn):
                                        target_name = name
                                    if target_name is not None and target_name not in ("self", "cls"):
                                        muts.setdefault(target_name, []).append((n.id, "nested:" + kind, (gft, g, mn, kind, payload, subs, c, offset), []))
            finally:
                _IMPORTING.discard(("muts", self.fi.key))
        self._muts = muts
        return muts

    # ------------------------------------------------------------------ terms
    def term(self, expr, nid, env=None, depth=0):
        env = env or {}
        key = (id(expr), nid, tuple(sorted((k, id(v)) for k, v in env.items())) if env else None)
        hit = self._memo.get(key)
        if hit is not None and hit[0] is expr:
            return hit[1]
        t = self._term(expr, nid, env, depth)
        if not self._active or not _has_rec(t):
            # the node is kept alive with the entry: ids of temporary (cloned) nodes are recycled otherwise
            self._memo[key] = (expr, t, env)
        return t

    def _is_config_alias(self, name, nid, env):
        """`name` is a local bound (only) to self.config"""
        if name in env or name in ("self", "cls"):
            return False
        ids = self.reaching(name, nid)
        if not ids:
            return False
        for i in ids:
            d_ = self.defs[i]
            v = getattr(d_, "value", None)
            if d_.kind != "assign" or not isinstance(v, ast.Attribute) or dotted(v) != "self.config":
                return False
        return True

    def _args(self, call, nid, env, depth):
        return tuple(self.term(a, nid, env, depth + 1) for a in call.args), \
            tuple((k.arg, self.term(k.value, nid, env, depth + 1)) for k in call.keywords)

    def _term(self, e, nid, env, depth):
        T = lambda x: self.term(x, nid, env, depth + 1)  # noqa: E731
        if depth > 60:
            return ("unk", "depth")
        if e is None:
            return ("const", None)
        if isinstance(e, ast.Constant):
            return ("const", e.value)
        if isinstance(e, ast.Name):
            if e.id in env:
                return env[e.id]
            return self.name_term(e.id, nid, depth)
        if isinstance(e, ast.Attribute):
            d = dotted(e)
            if d and d.startswith("self.config.") and d.count(".") == 2:
                return ("cfg", e.attr)
            if d and d.startswith("config.") and d.count(".") == 1 and "config" in self.fi.params:
                return ("cfg", e.attr)
            if d and d.count(".") == 1 and self._is_config_alias(d.split(".")[0], nid, env):
                return ("cfg", e.attr)      # cfg = self.config; cfg.param_x
            if d:
                # module constant / class attribute
                head = d.split(".")[0]
                if head not in env and not self.reaching(head, nid) and head != "self":
                    r = self.repo.resolve_dotted(self.fi.module, d)
                    if r and r[0] == "global":
                        m, nm = r[1]
                        try:
                            return _const_or_global(self.repo.const_value(m, m.globals[nm]), m.rel, nm)
                        except Exception:
                            return ("global", m.rel, nm)
                    if r and r[0] == "classattr":
                        ci, nm = r[1]
                        try:
                            return _const_or_global(self.repo.const_value(ci.module, ci.attrs[nm]), ci.module.rel, ci.name + "." + nm)
                        except Exception:
                            return ("global", ci.module.rel, ci.name + "." + nm)
                    if r and r[0] in ("func", "class", "module"):
                        return ("ref", r[0], getattr(r[1], "key", getattr(r[1], "rel", d)))
                    if r and r[0] == "external":
                        return ("ref", "external", r[1])
            return ("attr", T(e.value), e.attr)
        if isinstance(e, ast.Call):
            return self.call_term(e, nid, env, depth)
        if isinstance(e, ast.BinOp):
            l, r = T(e.left), T(e.right)
            return simplify(("binop", type(e.op).__name__, l, r))
        if isinstance(e, ast.UnaryOp):
            return simplify(("unop", type(e.op).__name__, T(e.operand)))
        if isinstance(e, ast.BoolOp):
            return ("boolop", type(e.op).__name__, tuple(T(v) for v in e.values))
        if isinstance(e, ast.Compare):
            return ("cmp", tuple(type(o).__name__ for o in e.ops), tuple(T(x) for x in [e.left] + list(e.comparators)))
        if isinstance(e, ast.IfExp):
            return ("ifexp", T(e.test), T(e.body), T(e.orelse))
        if isinstance(e, ast.Subscript):
            base = e.value
            d = dotted(base)
            if d == "self.config":
                return ("cfgdyn", T(e.slice))
            if isinstance(e.slice, ast.Slice):
                s = e.slice
                return ("slice", T(base), T(s.lower) if s.lower is not None else None,
                        T(s.upper) if s.upper is not None else None, T(s.step) if s.step is not None else None)
            return ("sub", T(base), T(e.slice))
        if isinstance(e, ast.Tuple):
            return ("tuple", tuple(T(x) for x in e.elts))
        if isinstance(e, ast.List):
            return ("list", tuple(T(x) for x in e.elts))
        if isinstance(e, ast.Set):
            return ("set", tuple(T(x) for x in e.elts))
        if isinstance(e, ast.Dict):
            return ("dict", tuple((T(k) if k is not None else None, T(v)) for k, v in zip(e.keys, e.values)))
        if isinstance(e, (ast.ListComp, ast.GeneratorExp, ast.SetComp, ast.DictComp)):
            env2 = dict(env)
            gens = []
            for g in e.generators:
                it = self.term(g.iter, nid, env2, depth + 1)
                names = []
                for name, path in _targets(g.target):
                    env2[name] = self.loop_binding(g.iter, it, path, nid, env2, depth)
                    names.append(name)
                conds = tuple(self.term(c, nid, env2, depth + 1) for c in g.ifs)
                gens.append((tuple(names), it, conds))
            if isinstance(e, ast.DictComp):
                elt = ("tuple", (self.term(e.key, nid, env2, depth + 1), self.term(e.value, nid, env2, depth + 1)))
            else:
                elt = self.term(e.elt, nid, env2, depth + 1)
            if not isinstance(e, (ast.DictComp, ast.SetComp)) and len(e.generators) == 1 and not e.generators[0].ifs and gens[0][1][0] in ("tuple", "list") and \
                    1 <= len(gens[0][1][1]) <= 8 and isinstance(e.generators[0].target, ast.Name):
                # a comprehension over a literal sequence is that sequence mapped element by element
                out = []
                for item in gens[0][1][1]:
                    env3 = dict(env)
                    env3[e.generators[0].target.id] = item
                    out.append(self.term(e.elt, nid, env3, depth + 1))
                return ("list", tuple(out))
            return ("comp", type(e).__name__, elt, tuple(gens))
        if isinstance(e, ast.Lambda):
            env2 = dict(env)
            ps = [a.arg for a in e.args.args]
            for p in ps:
                env2[p] = ("lparam", p)
            return ("lambda", tuple(ps), self.term(e.body, nid, env2, depth + 1))
        if isinstance(e, ast.JoinedStr):
            parts = []
            for v in e.values:
                if isinstance(v, ast.Constant):
                    parts.append(("const", v.value))
                elif isinstance(v, ast.FormattedValue):
                    parts.append(T(v.value))
            return ("fstr", tuple(parts))
        if isinstance(e, ast.Await):
            return ("await", T(e.value))
        if isinstance(e, ast.Starred):
            return ("star", T(e.value))
        if isinstance(e, ast.NamedExpr):
            return T(e.value)
        return ("unk", type(e).__name__)

    def loop_binding(self, it_expr, it_term, path, nid, env, depth):
        """Value bound to the target component `path` when iterating `it_expr` (enumerate / range / plain iterable)."""
        if isinstance(it_expr, ast.Call) and dotted(it_expr.func) == "enumerate" and it_expr.args:
            seq = self.term(it_expr.args[0], nid, env, depth + 1)
            start = 0
            extra = list(it_expr.args[1:]) + [k.value for k in it_expr.keywords if k.arg == "start"]
            if extra:
                st_t = self.term(extra[0], nid, env, depth + 1)
                start = st_t[1] if st_t[0] == "const" else st_t
            if path and path[0] == 0:
                return ("counter", start, 1)
            el = elem_of(seq)
            for p in path[1:]:
                el = proj(el, p)
            if not path:
                return ("tuple", (("counter", start, 1), el))
            return el
        el = elem_of(it_term)
        for p in path:
            el = proj(el, p)
        return el

    # ------------------------------------------------------------------ inlining of project helpers
    def _inlinable(self, g):
        if not hasattr(g, "module") or not g.module.rel.startswith("schemes/") or not g.module.rel.endswith("construction.py"):
            return False
        if g.name.startswith("__") or g.key == self.fi.key:
            return False
        for x in ast.walk(g.node):
            if isinstance(x, (ast.For, ast.While, ast.AsyncFor, ast.Yield, ast.YieldFrom, ast.Try, ast.With)):
                return False
        return True

    def _bind_args(self, g, call, nid, env, depth):
        params = list(g.params)
        binding = {}
        offset = 0
        if g.cls is not None and params and params[0] in ("self", "cls") and not any("staticmethod" in d for d in g.decorators):
            offset = 1
        for i, a in enumerate(call.args):
            if i + offset < len(params):
                binding[("param", params[i + offset])] = self.term(a, nid, env, depth + 1)
        for k in call.keywords:
            if k.arg:
                binding[("param", k.arg)] = self.term(k.value, nid, env, depth + 1)
        # defaults
        a = g.node.args
        pos = a.posonlyargs + a.args
        for p, d in zip(pos[len(pos) - len(a.defaults):], a.defaults):
            if ("param", p.arg) not in binding:
                try:
                    binding[("param", p.arg)] = ("const", ast.literal_eval(d))
                except Exception:
                    pass
        return binding

    def _inline_return(self, g, call, nid, env, depth):
        key = ("inline", g.key)
        if key in self._active or depth > 40:
            return None
        gft = fn_terms(self.repo, g)
        rets = [n for n in gft.cfg.nodes if n.kind == "return" and n.stmt.value is not None]
        if not rets:
            return None
        self._active.add(key)
        try:
            terms = []
            for r in rets:
                t = gft.term(r.stmt.value, r.id)
                if t not in terms:
                    terms.append(t)
            binding = self._bind_args(g, call, nid, env, depth)
        finally:
            self._active.discard(key)
        out = [substitute(t, binding) for t in terms]
        return out[0] if len(out) == 1 else ("phi", frozenset(out))

    def call_term(self, e, nid, env, depth):
        d = dotted(e.func)
        if d == "map" and len(e.args) == 2 and not e.keywords and isinstance(e.args[0], (ast.Name, ast.Attribute)) and d not in env and not self.reaching("map", nid):
            # map(f, xs)  ==  (f(x) for x in xs)
            seq = self.term(e.args[1], nid, env, depth + 1)
            env2 = dict(env)
            env2["__map_item__"] = elem_of(seq)
            call = ast.Call(func=e.args[0], args=[ast.Name(id="__map_item__", ctx=ast.Load())], keywords=[])
            ast.copy_location(call, e)
            ast.fix_missing_locations(call)
            self._synth = getattr(self, "_synth", [])
            self._synth.append(call)   # keep alive: term memo is keyed by node identity
            return ("comp", "GeneratorExp", self.term(call, nid, env2, depth + 1), ((("__map_item__",), seq, ()),))
        if d in ("list", "tuple") and len(e.args) == 1 and not e.keywords and d not in env and not self.reaching(d, nid):
            inner = self.term(e.args[0], nid, env, depth + 1)
            if inner[0] == "comp" and inner[1] in ("GeneratorExp", "ListComp"):
                return ("comp", "ListComp", inner[2], inner[3])
        args, kwargs = self._args(e, nid, env, depth)
        if d:
            parts = d.split(".")
            if parts[:2] == ["self", "config"] and len(parts) in (3, 4):
                return ("prim", parts[2], parts[3] if len(parts) == 4 else None, args, kwargs)
            if parts[0] == "config" and "config" in self.fi.params and len(parts) in (2, 3) and not self.reaching("config", nid)[1:]:
                return ("prim", parts[1], parts[2] if len(parts) == 3 else None, args, kwargs)
            if len(parts) in (2, 3) and self._is_config_alias(parts[0], nid, env):
                return ("prim", parts[1], parts[2] if len(parts) == 3 else None, args, kwargs)
            head = parts[0]
            local = head in env or bool(self.reaching(head, nid))
            is_import = local and all(self.defs[i].kind == "import" for i in self.reaching(head, nid)) and head not in env
            if not local or is_import or head in ("self", "cls"):
                tgt = self.repo.resolve_call(self.fi, e)
                if hasattr(tgt, "key"):
                    if self._inlinable(tgt):
                        inl = self._inline_return(tgt, e, nid, env, depth)
                        if inl is not None:
                            return inl
                    args, kwargs = _positional(tgt, args, kwargs)
                    return ("call", tgt.key, args, kwargs)
                if isinstance(tgt, tuple) and tgt[0] == "external":
                    return ("call", tgt[1], args, kwargs)
                if isinstance(tgt, tuple) and tgt[0] == "class":
                    return ("call", tgt[1].key, args, kwargs)
                if head not in ("self", "cls"):
                    if len(parts) >= 2 and self.fi.outer is not None and self.repo.resolve_dotted(self.fi.module, head) is None:
                        # a free variable of a nested helper: method call on the enclosing function's object
                        recv = ("free", head)
                        for p in parts[1:-1]:
                            recv = ("attr", recv, p)
                        return ("mcall", recv, parts[-1], args, kwargs)
                    return ("call", d, args, kwargs)
        if isinstance(e.func, ast.Attribute):
            recv = self.term(e.func.value, nid, env, depth + 1)
            # alias of a primitive object: ske = self.config.ske; ske.Encrypt(...)
            if recv[0] == "cfg":
                return ("prim", recv[1], e.func.attr, args, kwargs)
            return ("mcall", recv, e.func.attr, args, kwargs)
        f = self.term(e.func, nid, env, depth + 1)
        if f[0] == "cfg":
            return ("prim", f[1], None, args, kwargs)
        if f[0] == "attr" and f[1][0] == "cfg":
            return ("prim", f[1][1], f[2], args, kwargs)
        if f[0] == "cfgdyn":
            return ("primdyn", f[1], args, kwargs)
        return ("calldyn", f, args, kwargs)

    def name_term(self, name, nid, depth=0):
        ids = self.reaching(name, nid)
        if not ids:
            # global / builtin / module
            r = self.repo.resolve_dotted(self.fi.module, name)
            if r and r[0] == "global":
                m, nm = r[1]
                try:
                    return _const_or_global(self.repo.const_value(m, m.globals[nm]), m.rel, nm)
                except Exception:
                    return ("global", m.rel, nm)
            if r and r[0] in ("func", "class", "module"):
                return ("ref", r[0], getattr(r[1], "key", getattr(r[1], "rel", name)))
            if r and r[0] == "external":
                return ("ref", "external", r[1])
            # enclosing function's local (closure)
            return ("free", name)
        base = self._defs_term(name, ids, depth)
        # wrap with mutation facts
        ms = self.mutations().get(name) if name not in ("self", "cls") else None
        if ms:
            facts = []
            idset = set(ids)
            for (mn, kind, payload, subs) in ms:
                if not (set(self.reaching(name, mn)) & idset):
                    continue
                key = ("mut", name, mn, kind, id(payload))
                if key in self._active:
                    continue
                self._active.add(key)
                try:
                    facts.append(self._mutation_fact(mn, kind, payload, subs, depth))
                finally:
                    self._active.discard(key)
            if facts:
                return ("cont", name, base, frozenset(facts))
        return base

    def _nested_fact(self, cs, payload, depth):
        nft, nfi, mn, kind, inner, subs, call, offset = payload
        fact = nft._mutation_fact(mn, kind, inner, subs, depth + 1)
        # bind the helper's parameters to the call's arguments, free variables to this function's values at the call
        binding = {}
        params = nfi.params
        for i, a in enumerate(call.args):
            if i + offset < len(params):
                binding[("param", params[i + offset])] = self.term(a, cs, None, depth + 1)
        for k in call.keywords:
            if k.arg:
                binding[("param", k.arg)] = self.term(k.value, cs, None, depth + 1)
        cache = {}

        def sub(t, d=0):
            if isinstance(t, frozenset):
                return frozenset(sub(x, d + 1) for x in t)
            if not isinstance(t, tuple) or d > 80:
                return t
            if t in binding:
                return binding[t]
            if t and t[0] == "free" and len(t) == 2:
                key = ("free", t[1])
                if key not in cache:
                    cache[key] = self.name_term(t[1], cs, depth + 1)
                return cache[key]
            out = tuple(sub(x, d + 1) if isinstance(x, (tuple, frozenset)) else x for x in t)
            if out and out[0] == "cont" and isinstance(out[2], tuple) and out[2] and out[2][0] == "cont":
                inner = out[2]
                return ("cont", inner[1], inner[2], frozenset(out[3]) | frozenset(inner[3]))
            return out
        k2, subs_t, a, b, _ = fact
        return (k2, sub(subs_t), sub(a), sub(b) if b is not None else None, cs)

    def _mutation_fact(self, mn, kind, payload, subs, depth):
        if kind.startswith("nested:"):
            return self._nested_fact(mn, payload, depth)
        subs_t = tuple(self.term(s, mn, None, depth + 1) for s in subs)
        if kind in ("setitem", "delitem", "augitem", "setattr"):
            tt, st = payload
            idx = self.term(tt.slice, mn, None, depth + 1) if isinstance(tt, ast.Subscript) else ("const", tt.attr)
            val = None
            if isinstance(st, ast.Assign):
                # tuple assignment: pick the matching component when possible
                val = self.term(st.value, mn, None, depth + 1)
                if isinstance(st.targets[0], (ast.Tuple, ast.List)):
                    for i, x in enumerate(st.targets[0].elts):
                        if x is tt:
                            val = proj(val, i)
            elif isinstance(st, ast.AugAssign):
                val = ("binop", type(st.op).__name__, ("rec", "item"), self.term(st.value, mn, None, depth + 1))
            return (kind, subs_t, idx, val, mn)
        call = payload
        args = tuple(self.term(a, mn, None, depth + 1) for a in call.args)
        return (kind, subs_t, args, None, mn)

    def _defs_term(self, name, ids, depth):
        defs = [self.defs[i] for i in ids]
        # counter pattern
        c = self._counter(name, defs)
        if c is not None:
            return c
        terms = []
        for d in defs:
            key = ("def", d.id)
            if key in self._active:
                terms.append(("rec", name))
                continue
            self._active.add(key)
            try:
                terms.append(self.def_term(d, depth))
            finally:
                self._active.discard(key)
        uniq = []
        for t in terms:
            if t not in uniq:
                uniq.append(t)
        if len(uniq) == 1:
            return uniq[0]
        return ("phi", frozenset(uniq))

    def _counter(self, name, defs):
        inits, steps, other = set(), set(), False
        for d in defs:
            if d.kind == "assign" and not d.path and isinstance(d.value, ast.Constant) and isinstance(d.value.value, int) \
                    and not isinstance(d.value.value, bool):
                inits.add(d.value.value)
            elif d.kind == "aug" and isinstance(d.stmt.op, (ast.Add, ast.Sub)) and isinstance(d.value, ast.Constant) and isinstance(d.value.value, int):
                steps.add(d.value.value if isinstance(d.stmt.op, ast.Add) else -d.value.value)
                # all definitions reaching the augmented assignment must themselves be counter parts
                for j in self.reaching(name, d.node):
                    dj = self.defs[j]
                    if dj.kind == "assign" and isinstance(dj.value, ast.Constant) and isinstance(dj.value.value, int):
                        inits.add(dj.value.value)
                    elif dj.kind == "aug":
                        pass
                    else:
                        other = True
            else:
                other = True
        if other or not steps or len(inits) != 1 or len(steps) != 1:
            return None
        only_aug = all(d.kind == "aug" for d in defs)
        start = next(iter(inits))
        step = next(iter(steps))
        # if only the increments reach the use, the value has been incremented at least once
        return ("counter", start + step if only_aug else start, step)

    def def_term(self, d, depth=0):
        if d.kind == "param":
            return ("param", d.var)
        if d.kind in ("import", "def"):
            return ("ref", d.kind, d.var)
        if d.kind == "except":
            return ("exc", d.var)
        if d.kind == "assign":
            v = self.term(d.value, d.node, None, depth + 1)
            return self._project(d, v)
        if d.kind == "aug":
            prev_ids = self.reaching(d.var, d.node)
            prev = self._defs_term(d.var, prev_ids, depth + 1) if prev_ids else ("unk", "undef")
            return simplify(("binop", type(d.stmt.op).__name__, prev, self.term(d.value, d.node, None, depth + 1)))
        if d.kind == "with":
            return self._project(d, ("enter", self.term(d.value, d.node, None, depth + 1)))
        if d.kind == "for":
            it = d.value
            return self.loop_binding(it, self.term(it, d.node, None, depth + 1), d.path, d.node, None, depth)
            # (kept for reference) enumerate(x[, start]) / range(...)
            if isinstance(it, ast.Call) and dotted(it.func) == "enumerate" and it.args:
                seq = self.term(it.args[0], d.node, None, depth + 1)
                start = 0
                if len(it.args) > 1:
                    st_t = self.term(it.args[1], d.node, None, depth + 1)
                    start = st_t[1] if st_t[0] == "const" else st_t
                for k in it.keywords:
                    if k.arg == "start":
                        st_t = self.term(k.value, d.node, None, depth + 1)
                        start = st_t[1] if st_t[0] == "const" else st_t
                if d.path and d.path[0] == 0:
                    return ("counter", start, 1)
                el = elem_of(seq)
                for p in d.path[1:]:
                    el = proj(el, p)
                if not d.path:
                    return ("tuple", (("counter", start, 1), el))
                return el
            itt = self.term(it, d.node, None, depth + 1)
            el = elem_of(itt)
            for p in d.path:
                el = proj(el, p)
            return el
        return ("unk", d.kind)

    def _project(self, d, v):
        if not d.path:
            return v
        # split_bytes_given_slice_len(x, [l1, ..., ln]) unpacked into n names
        if v[0] == "call" and v[1].endswith("::split_bytes_given_slice_len") and len(d.path) == 1 and len(v[2]) >= 2:
            return ("piece", v[2][0], d.path[0], v[2][1])
        for p in d.path:
            v = proj(v, p)
        return v


def substitute(t, binding, depth=0):
    """Replace whole sub-terms according to `binding` (dict term -> term)."""
    if isinstance(t, frozenset):
        return frozenset(substitute(x, binding, depth + 1) for x in t)
    if not isinstance(t, tuple) or depth > 90:
        return t
    if t in binding:
        return binding[t]
    out = tuple(substitute(x, binding, depth + 1) if isinstance(x, (tuple, frozenset)) else x for x in t)
    if out and out[0] == "cont" and isinstance(out[2], tuple) and out[2] and out[2][0] == "cont":
        # a helper's view of an argument that the caller already tracks as a container: merge the two views
        inner = out[2]
        return ("cont", inner[1], inner[2], frozenset(out[3]) | frozenset(inner[3]))
    return out


def _const_or_global(v, rel, name):
    """Module constants become ('const', v) only when hashable and immutable; shared mutable objects stay symbolic."""
    if isinstance(v, (dict, list, set, bytearray)):
        return ("global", rel, name)
    try:
        hash(v)
    except TypeError:
        return ("global", rel, name)
    return ("const", v)


# ----------------------------------------------------------------------------- helpers on terms
def _root_name(e):
    """x, x[i], x[i][j], x.a  ->  ('x', [index exprs])"""
    subs = []
    while isinstance(e, (ast.Subscript, ast.Attribute)):
        if isinstance(e, ast.Subscript):
            subs.append(e.slice)
        e = e.value
    if isinstance(e, ast.Name):
        return e.id, list(reversed(subs))
    return None, []


def elem_of(seq):
    if seq[0] == "call" and seq[1] == "range":
        return ("rangevar", seq[2])
    if seq[0] == "call" and seq[1] in ("itertools.count", "count"):
        a = list(seq[2]) + [v for k, v in seq[3]]
        start = a[0][1] if a and a[0][0] == "const" else (0 if not a else a[0])
        step = a[1][1] if len(a) > 1 and a[1][0] == "const" else 1
        return ("counter", start, step)
    if seq[0] == "call" and seq[1] in ("reversed", "sorted", "list", "tuple", "iter", "set", "frozenset") and len(seq[2]) >= 1:
        # the same elements in another order / container
        return elem_of(seq[2][0])
    if seq[0] == "mcall" and not seq[3] and seq[2] in ("items", "keys", "values"):
        base = seq[1]
        k = elem_of(base)
        if seq[2] == "keys":
            return k
        if seq[2] == "values":
            return ("sub", base, k)
        return ("tuple", (k, ("sub", base, k)))
    if seq[0] == "comp" and seq[1] in ("ListComp", "SetComp", "GeneratorExp"):
        return seq[2]
    if seq[0] in ("list", "tuple", "set") and seq[1]:
        u = []
        for x in seq[1]:
            if x not in u:
                u.append(x)
        return u[0] if len(u) == 1 else ("phi", frozenset(u))
    return ("elem", seq)


def proj(t, i):
    if t[0] in ("tuple", "list") and isinstance(i, int) and i < len(t[1]):
        return t[1][i]
    if t[0] == "phi":
        return ("phi", frozenset(proj(x, i) for x in t[1]))
    return ("proj", t, i)


def simplify(t):
    if t[0] == "binop":
        _, op, l, r = t
        if l[0] == "const" and r[0] == "const":
            try:
                a, b = l[1], r[1]
                v = {"Add": lambda: a + b, "Sub": lambda: a - b, "Mult": lambda: a * b, "FloorDiv": lambda: a // b,
                     "Pow": lambda: a ** b if (isinstance(b, int) and abs(b) < 64) else None, "Mod": lambda: a % b}.get(op, lambda: None)()
                if v is not None and (not isinstance(v, (bytes, str)) or len(v) <= 64):
                    return ("const", v)
            except Exception:
                pass
        if op == "Add" and l[0] == "counter" and r[0] == "const" and isinstance(r[1], int) and isinstance(l[1], int):
            return ("counter", l[1] + r[1], l[2])
        if op == "Sub" and l[0] == "counter" and r[0] == "const" and isinstance(r[1], int) and isinstance(l[1], int):
            return ("counter", l[1] - r[1], l[2])
    if t[0] == "unop" and t[2][0] == "const":
        try:
            v = t[2][1]
            if t[1] == "USub":
                return ("const", -v)
            if t[1] == "Not":
                return ("const", not v)
        except Exception:
            pass
    return t


def _has_rec(t):
    stack = [t]
    while stack:
        x = stack.pop()
        if isinstance(x, tuple):
            if x and x[0] == "rec":
                return True
            stack.extend(y for y in x if isinstance(y, (tuple, frozenset)))
        elif isinstance(x, frozenset):
            stack.extend(y for y in x if isinstance(y, (tuple, frozenset)))
    return False


def walk(t):
    """All sub-terms (pre-order)."""
    stack = [t]
    seen = 0
    while stack:
        x = stack.pop()
        seen += 1
        if seen > 200000:
            return
        yield x
        if isinstance(x, (tuple, frozenset, list)):
            for y in x:
                if isinstance(y, (tuple, frozenset)):
                    stack.append(y)


def is_term(x):
    return isinstance(x, tuple) and x and isinstance(x[0], str)


def show(t, depth=0, maxdepth=7):
    """Compact human-readable rendering."""
    if not isinstance(t, tuple) or not t:
        if isinstance(t, frozenset):
            return "{" + " | ".join(sorted(show(x, depth + 1, maxdepth) for x in t)) + "}"
        return repr(t)
    if depth > maxdepth:
        return "..."
    S = lambda x: show(x, depth + 1, maxdepth)  # noqa: E731
    tag = t[0]
    if tag == "const":
        v = t[1]
        if isinstance(v, bytes) and len(v) <= 4:
            return "0x" + v.hex() if v else "b''"
        return repr(v)
    if tag == "param":
        return t[1]
    if tag == "cfg":
        return "cfg." + t[1]
    if tag == "prim":
        return "%s%s(%s)" % (t[1], "." + t[2] if t[2] else "", ", ".join(S(a) for a in t[3]))
    if tag == "call":
        return "%s(%s)" % (t[1].split("::")[-1], ", ".join([S(a) for a in t[2]] + ["%s=%s" % (k, S(v)) for k, v in t[3]]))
    if tag == "mcall":
        return "%s.%s(%s)" % (S(t[1]), t[2], ", ".join(S(a) for a in t[3]))
    if tag == "attr":
        return "%s.%s" % (S(t[1]), t[2])
    if tag == "binop":
        return "(%s %s %s)" % (S(t[2]), {"Add": "+", "Sub": "-", "Mult": "*", "FloorDiv": "//", "Div": "/", "Pow": "**", "Mod": "%"}.get(t[1], t[1]), S(t[3]))
    if tag == "sub":
        return "%s[%s]" % (S(t[1]), S(t[2]))
    if tag == "slice":
        return "%s[%s:%s]" % (S(t[1]), S(t[2]) if t[2] else "", S(t[3]) if t[3] else "")
    if tag in ("tuple", "list", "set"):
        return "(" + ", ".join(S(x) for x in t[1]) + ")"
    if tag == "elem":
        return "elem(%s)" % S(t[1])
    if tag == "proj":
        return "%s.%s" % (S(t[1]), t[2])
    if tag == "piece":
        return "piece%d(%s)" % (t[2], S(t[1]))
    if tag == "counter":
        return "ctr(%s;+%s)" % (t[1], t[2])
    if tag == "rangevar":
        return "range(%s)" % ", ".join(S(a) for a in t[1])
    if tag == "phi":
        return "phi{" + " | ".join(sorted(S(x) for x in t[1])) + "}"
    if tag == "rec":
        return "rec:" + t[1]
    if tag == "comp":
        return "[%s for %s]" % (S(t[2]), "; ".join("%s in %s" % (",".join(g[0]), S(g[1])) for g in t[3]))
    if tag == "cont":
        return "cont:%s{%d muts; init=%s}" % (t[1], len(t[3]), S(t[2]))
    return "%s(%s)" % (tag, ", ".join(S(x) if isinstance(x, tuple) else repr(x) for x in t[1:]))


def _positional(g, args, kwargs):
    """Canonical argument form for calls to library functions (toolkit/, schemes/): keyword arguments that name the next
    positional parameters are moved into the positional tuple, so that f(a, b) and f(x=a, y=b) give the same term."""
    rel = g.module.rel
    if not (rel.startswith("toolkit/") or rel.startswith("schemes/")) or not kwargs:
        return args, kwargs
    params = list(g.params)
    if g.cls is not None and params and params[0] in ("self", "cls") and not any("staticmethod" in d for d in g.decorators):
        params = params[1:]
    a = g.node.args
    if a.vararg is not None:
        return args, kwargs
    kw = dict(kwargs)
    out = list(args)
    for p in params[len(out):]:
        if p in kw and p not in [x.arg for x in a.kwonlyargs]:
            out.append(kw.pop(p))
        else:
            break
    return tuple(out), tuple(sorted(kw.items()))


_ft_cache = {}
_IMPORTING = set()


def fn_terms(repo, fi):
    k = id(fi.node)
    if k not in _ft_cache:
        _ft_cache[k] = (fi, FnTerms(repo, fi))
    return _ft_cache[k][1]


def norm_concat(t, depth=0):
    """Byte-string concatenation in one spelling: b''.join([a, b]) / b''.join((a, b)) / bytes(x) / bytearray(x) of a concatenation
    become the left-nested + chain of their pieces (everywhere inside t)."""
    if depth > 60 or not isinstance(t, tuple) or not t:
        return t
    t = tuple(norm_concat(x, depth + 1) if isinstance(x, tuple) else x for x in t)
    if t[0] == "mcall" and t[2] == "join" and t[1] == ("const", b"") and len(t[3]) == 1 and not t[4] and isinstance(t[3][0], tuple) and \
            t[3][0] and t[3][0][0] in ("list", "tuple") and len(t[3][0][1]) >= 1:
        parts = list(t[3][0][1])
        e = parts[0]
        for x in parts[1:]:
            e = ("binop", "Add", e, x)
        return e
    if t[0] == "call" and t[1] in ("bytes", "bytearray") and len(t[2]) == 1 and not t[3]:
        inner = t[2][0]
        if isinstance(inner, tuple) and inner and ((inner[0] == "binop" and inner[1] == "Add") or (inner[0] == "call" and inner[1] in ("os.urandom", "bytes", "bytearray"))):
            return inner
    return t
