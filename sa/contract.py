"""E5c - refusal contracts phrased over must-facts (facts.py).

A contract "calls whose <subject> violates <declared> are refused with <exc>" is decided as two obligations:

  reach    every value-returning return and the normal exit is reached only on paths on which one of the *permitting*
           facts is known (e.g. len(key@entry) == self.key_length, or self.key_length == LENGTH_UNLIMITED);
  refuse   some `raise <exc>` is reached with the violating fact known.

Both are insensitive to how the guard is spelled (negated test, if/else, early return, De Morgan, temporaries, an
expanded helper).  Facts about a parameter are only about its *entry* value (`p__entry`), so a check made after the
parameter was re-bound does not count.
"""
import ast

from .facts import GHOST, facts_of


# ---------------------------------------------------------------------------------------------------------------- options
def eq(a, b, truth=True):
    key = ("==",) + tuple(sorted((a, b)))
    return lambda k, t: k == key and t == truth


def is_(a, b, truth=True):
    key = ("is",) + tuple(sorted((a, b)))
    return lambda k, t: k == key and t == truth


def lt(a, b, truth=True):
    return lambda k, t: k == ("<", a, b) and t == truth


def truthy(text, truth=True):
    return lambda k, t: k == ("truth", text) and t == truth


def member(subject, values, truth=True):
    want = set(values)

    def pred(k, t):
        if k[0] != "in" or k[1] != subject or t != truth:
            return False
        return literal_set(k[2]) == want
    return pred


def literal_set(text):
    """The set of values of a container display, also through frozenset(..) / set(..) / tuple(..) / list(..)."""
    try:
        e = ast.parse(text, mode="eval").body
        while isinstance(e, ast.Call) and isinstance(e.func, ast.Name) and e.func.id in ("frozenset", "set", "tuple", "list") and len(e.args) == 1:
            e = e.args[0]
        return set(ast.literal_eval(e))
    except Exception:
        return None


def isinstance_of(subject, truth=True, types=None):
    """isinstance(<subject>, T) for any T (or T's text in `types`)."""
    def pred(k, t):
        if k[0] != "truth" or t != truth:
            return False
        try:
            e = ast.parse(k[1], mode="eval").body
        except SyntaxError:
            return False
        if not (isinstance(e, ast.Call) and isinstance(e.func, ast.Name) and e.func.id == "isinstance" and len(e.args) == 2):
            return False
        if ast.unparse(e.args[0]) != subject:
            return False
        return types is None or ast.unparse(e.args[1]) in types
    return pred


def any_fact(pred):
    """Lift a predicate on (key, truth) to a predicate on a fact set."""
    return lambda facts: any(pred(k, t) for (k, t) in facts)


def entry(name):
    return name + GHOST


# ---------------------------------------------------------------------------------------------------------------- queries
def exit_nodes(F, with_exit=True):
    """Value-returning returns (+ the normal exit)."""
    ns = [n.id for n in F.cfg.nodes if n.kind == "return" and n.stmt.value is not None and n.id in F.ins]
    if with_exit and F.cfg.exit in F.ins:
        ns.append(F.cfg.exit)
    return ns


def unpermitted(F, nodes, options):
    """[(node id, alternative)] : alternatives at `nodes` on which none of the permitting facts is known."""
    bad = []
    for nid in nodes:
        for alt in F.alts(nid) or []:
            if not any(o(k, t) for (k, t) in alt for o in options):
                bad.append((nid, alt))
    return bad


def refusals(F, pred, exc=("ValueError",)):
    """raise nodes of an exception class in `exc` at which a fact satisfying `pred` is known on every path."""
    out = []
    for n, name, f in F.raises():
        if exc is not None and (name is None or name.split(".")[-1] not in exc):
            continue
        if any(pred(k, t) for (k, t) in f):
            out.append(n)
    return out


def length_contract(fi, subject, declared, unlimited=True, exc=("ValueError",), decl_text=None):
    """len(<subject parameter>) must equal self.<declared> (unless that is LENGTH_UNLIMITED = -1).

    -> (refuse_nodes, unpermitted list, F)"""
    F = facts_of(fi)
    ln = "len(%s)" % entry(subject)
    dt = decl_text or ("self.%s" % declared)
    options = [eq(ln, dt)]
    if unlimited:
        options.append(eq("-1", dt))
    bad = unpermitted(F, exit_nodes(F), options)
    ref = refusals(F, eq(ln, dt, False), exc)
    return ref, bad, F


def describe_alt(alt):
    def one(k, t):
        if k[0] == "truth":
            return ("" if t else "not ") + k[1]
        op = k[0]
        if not t:
            op = {"==": "!=", "<": ">=", "in": "not in", "is": "is not"}[op]
        return "%s %s %s" % (k[1], op, k[2])
    return " and ".join(sorted(one(k, t) for (k, t) in alt if k[0] != "flagdef")) or "no condition at all"
