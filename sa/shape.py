"""E6b - loop summaries of small byte/integer routines, for rename-insensitive comparison with a reference recurrence.

summary(fnode) reduces a function of the shape  <straight-line prefix> ; <one loop> ; <straight-line suffix / return>
to  init (values of the loop-carried variables before the loop), step (their values after one iteration in terms of
their values before it), the loop control, and the returned expression - all as canonical straight.py terms in which
loop-invariant temporaries and callables (functools.partial, expanded helpers) are substituted.  Rules then *unify*
these with the reference recurrence using pattern variables for the carried variables, so that a renamed variable, a
temporary, an accumulation in a list that is joined at the end, or a hoisted constant do not change the verdict.
"""
import ast

from . import straight as S
from .model import clone, dotted


class NoShape(Exception):
    pass


def _is_doc(st):
    return isinstance(st, ast.Expr) and isinstance(st.value, ast.Constant) and isinstance(st.value.value, str)


def bytes_accumulators(fnode):
    """Clone of fnode in which  x = [] ... x.append(e) ... b''.join(x)  is rewritten to  x = b'' ... x += e ... x
    (only when x is used in no other way)."""
    f = clone(fnode)
    cands = {}
    for st in ast.walk(f):
        if isinstance(st, ast.Assign) and len(st.targets) == 1 and isinstance(st.targets[0], ast.Name) and \
                isinstance(st.value, ast.List) and not st.value.elts:
            cands.setdefault(st.targets[0].id, []).append(st)
    for name, inits in list(cands.items()):
        ok = True
        appends, joins, lens = [], [], []
        parents = {}
        for n in ast.walk(f):
            for c in ast.iter_child_nodes(n):
                parents[c] = n
        for n in ast.walk(f):
            if isinstance(n, ast.Name) and n.id == name:
                p = parents.get(n)
                if isinstance(n.ctx, ast.Store):
                    if not (isinstance(p, ast.Assign) and p in inits):
                        ok = False
                    continue
                # x.append(e) as a statement
                if isinstance(p, ast.Attribute) and p.attr == "append" and isinstance(parents.get(p), ast.Call) and \
                        isinstance(parents.get(parents.get(p)), ast.Expr) and len(parents[p].args) == 1:
                    appends.append(parents[parents[p]])
                    continue
                # b"".join(x)
                if isinstance(p, ast.Call) and isinstance(p.func, ast.Attribute) and p.func.attr == "join" and \
                        isinstance(p.func.value, ast.Constant) and p.func.value.value == b"" and p.args == [n]:
                    joins.append(p)
                    continue
                # len(x): the number of pieces collected so far - becomes an explicit counter
                if isinstance(p, ast.Call) and isinstance(p.func, ast.Name) and p.func.id == "len" and p.args == [n] and not p.keywords:
                    lens.append(p)
                    continue
                ok = False
        if not ok or not appends or not joins:
            continue
        for st in inits:
            st.value = ast.copy_location(ast.Constant(value=b""), st.value)
        for ex in appends:
            call = ex.value
            new = ast.copy_location(ast.AugAssign(target=ast.Name(id=name, ctx=ast.Store()), op=ast.Add(), value=call.args[0]), ex)
            _replace(f, ex, new)
        for j in joins:
            _replace(f, j, ast.copy_location(ast.Name(id=name, ctx=ast.Load()), j))
        if lens:
            cnt = name + "__n"
            for ln in lens:
                _replace(f, ln, ast.copy_location(ast.Name(id=cnt, ctx=ast.Load()), ln))
            for holder in ast.walk(f):
                for field in ("body", "orelse", "finalbody"):
                    lst = getattr(holder, field, None)
                    if not (isinstance(lst, list) and lst and isinstance(lst[0], ast.stmt)):
                        continue
                    i = 0
                    while i < len(lst):
                        y = lst[i]
                        if isinstance(y, ast.Assign) and y in inits:
                            lst.insert(i + 1, ast.copy_location(ast.Assign(targets=[ast.Name(id=cnt, ctx=ast.Store())], value=ast.Constant(value=0)), y))
                            i += 1
                        elif isinstance(y, ast.AugAssign) and isinstance(y.target, ast.Name) and y.target.id == name:
                            lst.insert(i + 1, ast.copy_location(ast.AugAssign(target=ast.Name(id=cnt, ctx=ast.Store()), op=ast.Add(), value=ast.Constant(value=1)), y))
                            i += 1
                        i += 1
    ast.fix_missing_locations(f)
    return f


def list_accumulators(fnode):
    """Clone of fnode in which  x = [] ... x.append(e)  becomes  x = () ... x = x + (e,)  when x is otherwise only read
    (so that the loop summary shows what is collected, in order)."""
    f = clone(fnode)
    parents = {}
    for n in ast.walk(f):
        for c in ast.iter_child_nodes(n):
            parents[c] = n
    cands = {}
    for st in ast.walk(f):
        if isinstance(st, ast.Assign) and len(st.targets) == 1 and isinstance(st.targets[0], ast.Name) and \
                isinstance(st.value, ast.List) and not st.value.elts:
            cands.setdefault(st.targets[0].id, []).append(st)
    for name, inits in cands.items():
        ok, appends = True, []
        for n in ast.walk(f):
            if isinstance(n, ast.Name) and n.id == name:
                p = parents.get(n)
                if isinstance(n.ctx, ast.Store):
                    if not (isinstance(p, ast.Assign) and p in inits):
                        ok = False
                    continue
                if isinstance(p, ast.Attribute):
                    if p.attr == "append" and isinstance(parents.get(p), ast.Call) and isinstance(parents.get(parents.get(p)), ast.Expr) and \
                            len(parents[p].args) == 1:
                        appends.append(parents[parents[p]])
                    else:
                        ok = False   # another method: extend, sort, pop ...
        if not ok or not appends:
            continue
        for st in inits:
            st.value = ast.copy_location(ast.Tuple(elts=[], ctx=ast.Load()), st.value)
        for ex in appends:
            e = ex.value.args[0]
            new = ast.copy_location(ast.Assign(targets=[ast.Name(id=name, ctx=ast.Store())], value=ast.BinOp(
                left=ast.Name(id=name, ctx=ast.Load()), op=ast.Add(), right=ast.Tuple(elts=[e], ctx=ast.Load()))), ex)
            _replace(f, ex, new)
    ast.fix_missing_locations(f)
    return f


def _replace(root, old, new):
    for n in ast.walk(root):
        for field, val in ast.iter_fields(n):
            if val is old:
                setattr(n, field, new)
                return True
            if isinstance(val, list):
                for i, x in enumerate(val):
                    if x is old:
                        val[i] = new
                        return True
    return False


def _assigned(stmts):
    out = set()
    for st in stmts:
        for x in ast.walk(st):
            if isinstance(x, ast.Name) and isinstance(x.ctx, ast.Store):
                out.add(x.id)
    return out


class Summary:
    pass


def summary(fnode, loop_pred=None):
    """Summarise the first top-level loop of the function (guards - `if ...: raise` - in the prefix are skipped)."""
    body = [st for st in fnode.body if not _is_doc(st)]
    idx = next((i for i, st in enumerate(body) if isinstance(st, (ast.While, ast.For)) and (loop_pred is None or loop_pred(st))), None)
    if idx is None:
        raise NoShape("no loop")
    loop = body[idx]
    pre = []
    for st in body[:idx]:
        if isinstance(st, (ast.Assign, ast.AugAssign)):
            pre.append(st)
        elif isinstance(st, ast.If) and all(isinstance(x, (ast.Raise, ast.Expr, ast.Pass)) for x in st.body) and not st.orelse:
            continue  # a refusal guard
        elif isinstance(st, (ast.Expr, ast.Pass, ast.Import, ast.ImportFrom, ast.Assert)):
            continue
        else:
            raise NoShape("prefix statement %s" % type(st).__name__)
    s = Summary()
    s.loop = loop
    s.carried = sorted(_assigned(loop.body) | (_assigned([ast.Expr(value=loop.target)]) if isinstance(loop, ast.For) else set()))
    s.breaks = []   # (position in the body, condition under which the loop is left there, as a canonical term)
    try:
        env0 = S.run(pre)
        inv = {k: v for k, v in env0.items() if k not in s.carried}
        env1 = dict(inv)
        for pos, st in enumerate(loop.body):
            if isinstance(st, ast.If) and not st.orelse and st.body and all(isinstance(x, (ast.Break, ast.Pass)) for x in st.body) and any(isinstance(x, ast.Break) for x in st.body):
                s.breaks.append((pos, S.canon(S.expr(st.test, env1))))
                continue
            env1 = S.run([st], env1)
    except S.NotStraight as e:
        raise NoShape("not straight-line: %s" % e)
    s.init = {k: S.canon(v) for k, v in env0.items()}
    s.inv = {k: S.canon(v) for k, v in inv.items()}
    s.step = {k: S.canon(env1[k]) for k in s.carried if k in env1}
    if isinstance(loop, ast.While):
        s.kind = "while"
        s.cond = S.canon(S.expr(loop.test, inv))
        s.iter = None
    else:
        s.kind = "for"
        s.cond = None
        s.iter = S.canon(S.expr(loop.iter, inv))
        s.target = loop.target.id if isinstance(loop.target, ast.Name) else None
    # suffix: straight-line up to the first return
    post = body[idx + 1:]
    env2 = dict(inv)
    ret = None
    try:
        for st in post:
            if isinstance(st, ast.Return):
                ret = S.canon(S.expr(st.value, env2)) if st.value is not None else ("const", None)
                break
            env2 = S.run([st], env2)
    except S.NotStraight as e:
        raise NoShape("suffix not straight-line: %s" % e)
    s.ret = ret
    s.orelse = bool(getattr(loop, "orelse", None))
    return s


def _walk_terms(t):
    yield t
    if isinstance(t, tuple):
        for x in t:
            if isinstance(x, tuple):
                for y in _walk_terms(x):
                    yield y


def times(s, count_pat_check):
    """How many times does the loop run?  Returns ('count', term) for `while n > 0: ...; n -= 1` (n's initial value) and
    `for _ in range(term)`, ('until', cmp term) for another while condition, or None."""
    if s.kind == "for":
        it = s.iter
        if it[0] == "call" and it[1] == ("fn", "range") and len(it[2]) == 1:
            return ("count", it[2][0], None)
        if it[0] == "call" and it[1] == ("fn", "range") and len(it[2]) == 2 and it[2][0] == ("const", 0):
            return ("count", it[2][1], None)
        return ("iter", it, None)
    c = s.cond
    if c[0] == "cmp" and len(c[1]) == 1:
        op, (l, r) = c[1][0], c[2]
        # n > 0 / 0 < n / n != 0 / n >= 1 with n -= 1
        for var, ok in ((l, (op == "Gt" and r == ("const", 0)) or (op == "NotEq" and r == ("const", 0)) or (op == "GtE" and r == ("const", 1))),
                        (r, (op == "Lt" and l == ("const", 0)) or (op == "LtE" and l == ("const", 1)))):
            if ok and var[0] == "var" and s.step.get(var[1]) in (("op", "Sub", var, ("const", 1)), ("cat", (var, ("const", -1)))):
                return ("count", s.init.get(var[1]), var[1])
        # c < N / N > c with c = 0 ... c += 1 and N not changed by the loop: N iterations
        for var, bound, ok in ((l, r, op == "Lt"), (r, l, op == "Gt")):
            if ok and var[0] == "var" and s.init.get(var[1]) == ("const", 0) and s.step.get(var[1]) in (("cat", (var, ("const", 1))), ("cat", (("const", 1), var))) and \
                    not any(isinstance(x, tuple) and x and x[0] == "var" and x[1] in s.step for x in _walk_terms(bound)):
                return ("count", bound, var[1])
        return ("until", c, None)
    if c[0] == "var" and s.step.get(c[1]) == ("op", "Sub", c, ("const", 1)):
        return ("count", s.init.get(c[1]), c[1])
    return ("until", c, None)


def cmp_norm(t):
    """A condition term as ((op, a, b), truth) with op in Lt / Eq (a > b -> b < a; a >= b -> not a < b; not x -> flipped)."""
    truth = True
    while t[0] == "un" and t[1] == "Not":
        truth = not truth
        t = t[2]
    if t[0] == "cmp" and len(t[1]) == 1:
        op, (a, b) = t[1][0], t[2]
        if op == "Lt":
            return ("Lt", a, b), truth
        if op == "Gt":
            return ("Lt", b, a), truth
        if op == "GtE":
            return ("Lt", a, b), not truth
        if op == "LtE":
            return ("Lt", b, a), not truth
        if op in ("Eq", "NotEq"):
            x, y = sorted((a, b), key=repr)
            return ("Eq", x, y), truth if op == "Eq" else not truth
    return ("?", t), truth


def continue_condition(s):
    """The condition under which an iteration's work is done, normalised by cmp_norm: the while test, or the negation of a
    break test that stands first in the body of `while True` / `for .. in itertools.count(..)`.  None when there is none."""
    if s.kind == "while" and s.cond is not None and s.cond != ("const", True) and not s.breaks:
        return cmp_norm(s.cond)
    endless = (s.kind == "while" and s.cond == ("const", True)) or (s.kind == "for" and s.iter is not None and s.iter[0] == "call" and s.iter[1] == ("fn", "itertools.count"))
    if endless and len(s.breaks) == 1 and s.breaks[0][0] == 0:
        k, t = cmp_norm(s.breaks[0][1])
        return k, not t
    return None


def counter_of(s):
    """(variable, start term, step) of the loop's counter: a carried variable advanced by a constant each iteration, or the
    target of `for v in itertools.count(start[, step])` / `range(start, ..)`."""
    if s.kind == "for" and s.target and s.iter is not None and s.iter[0] == "call" and s.iter[1] == ("fn", "itertools.count"):
        a = list(s.iter[2]) + [v for _k, v in s.iter[3]]
        start = a[0] if a else ("const", 0)
        step = a[1] if len(a) > 1 else ("const", 1)
        return s.target, start, step
    for v, st in s.step.items():
        if st == ("cat", (("var", v), ("const", 1))) and v in s.init:
            return v, s.init[v], ("const", 1)
    return None


def reroll(fnode, min_runs=2):
    """Clone of fnode in which a run of k >= min_runs consecutive statements that are identical except for one integer constant that
    counts 0, 1, .., k-1 (a loop written out: `round(key_list[0])`, `round(key_list[1])`, `round(key_list[2])`) is replaced by
    `for i__r in range(k): <statement with i__r>`.  Returns the clone, or None when there is no such run."""
    f = clone(fnode)

    class Mark(ast.NodeTransformer):
        def __init__(self):
            self.consts = []

        def visit_Constant(self, node):
            if isinstance(node.value, int) and not isinstance(node.value, bool):
                self.consts.append(node)
            return node

    def skeleton(st):
        m = Mark()
        c = clone(st)
        m.visit(c)
        vals = [x.value for x in m.consts]
        for x in m.consts:
            x.value = 0
        return ast.dump(c), vals, c, m.consts
    done = False
    for holder in ast.walk(f):
        for field in ("body", "orelse", "finalbody"):
            lst = getattr(holder, field, None)
            if not (isinstance(lst, list) and lst and isinstance(lst[0], ast.stmt)):
                continue
            i = 0
            while i < len(lst):
                sk0, v0, _c0, _m0 = skeleton(lst[i])
                j = i + 1
                runs = [v0]
                while j < len(lst):
                    skj, vj, _cj, _mj = skeleton(lst[j])
                    if skj != sk0 or len(vj) != len(v0):
                        break
                    runs.append(vj)
                    j += 1
                k = len(runs)
                if k >= min_runs and v0:
                    # exactly the positions that vary must count 0..k-1; all other constants are equal throughout
                    varying = [p for p in range(len(v0)) if len({r[p] for r in runs}) > 1]
                    if varying and all([r[p] for r in runs] == list(range(k)) for p in varying):
                        _sk, _v, body, marks = skeleton(lst[i])
                        for p_, x in enumerate(marks):
                            x.value = v0[p_]

                        class Sub(ast.NodeTransformer):
                            def visit_Constant(self, node):
                                for p in varying:
                                    if node is marks[p]:
                                        return ast.copy_location(ast.Name(id="i__r", ctx=ast.Load()), node)
                                return node
                        body = Sub().visit(body)
                        loop = ast.For(target=ast.Name(id="i__r", ctx=ast.Store()), iter=ast.Call(func=ast.Name(id="range", ctx=ast.Load()), args=[ast.Constant(value=k)], keywords=[]),
                                       body=[body], orelse=[])
                        lst[i:j] = [ast.copy_location(loop, lst[i])]
                        done = True
                i += 1
    if not done:
        return None
    ast.fix_missing_locations(f)
    return f
