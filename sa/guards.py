"""E5 - finite guard lattices: condition refinement over boolean structure + forward solve."""
import ast

from .cfg import forward


def refine_bool(expr, truth, state, atom, join):
    """Refine `state` assuming `expr` evaluates to `truth`.  atom(expr, truth, state) -> state | None."""
    if state is None:
        return None
    if isinstance(expr, ast.UnaryOp) and isinstance(expr.op, ast.Not):
        return refine_bool(expr.operand, not truth, state, atom, join)
    if isinstance(expr, ast.BoolOp):
        conj = isinstance(expr.op, ast.And)
        if conj == truth:
            # all operands have value `truth`
            s = state
            for v in expr.values:
                s = refine_bool(v, truth, s, atom, join)
                if s is None:
                    return None
            return s
        # some operand has value `truth` (short circuit: earlier ones have the opposite value)
        res = None
        s = state
        for v in expr.values:
            r = refine_bool(v, truth, s, atom, join)
            if r is not None:
                res = r if res is None else join(res, r)
            s = refine_bool(v, not truth, s, atom, join)
            if s is None:
                break
        return res
    if isinstance(expr, ast.Constant):
        return state if bool(expr.value) == truth else None
    if isinstance(expr, ast.Call) and isinstance(expr.func, ast.Name) and expr.func.id == "bool" and len(expr.args) == 1:
        return refine_bool(expr.args[0], truth, state, atom, join)
    return atom(expr, truth, state)


def solve(cfg, init, transfer, join, atom, label_refine=None):
    def refine(node, label, state):
        if node.kind == "test" and isinstance(label, bool):
            return refine_bool(node.ast, label, state, atom, join)
        if label_refine is not None:
            return label_refine(node, label, state)
        return state
    return forward(cfg, init, transfer, join, refine)
