"""E5b - must-facts: which atomic conditions are known true / false whenever a statement is reached.

A forward must-analysis over the statement CFG.  The state is a set of (atom, truth) pairs; branching on a test adds the
facts the taken outcome implies (through not / and / or, with short circuit), joins intersect, assignments kill the
facts that mention the assigned name.  Atoms are compared as canonical text of the *leaf* conditions only:

    a > b   -> (a<b with sides swapped, True)       a >= b -> (a < b, False)       a <= b -> (b < a, False)
    a != b  -> (a == b, False)   (sides of == ordered)    a is not b -> (a is b, False)    a not in b -> (a in b, False)

so that the guard `if not ok: raise`, the guard `if ok: ... else: raise`, an early return, a De Morgan rewrite or an
extracted-and-expanded helper all give the same facts at the same statements.  Single-assignment temporaries are
inlined in the atoms (model.inline_locals).  This is what the "X is refused", "the check precedes the effect" and
"the effect happens only when ..." rules are phrased in, instead of the spelling of one particular `if`.
"""
import ast
import re

from .cfg import cfg_of, forward
from .guards import refine_bool
from .model import dotted, inline_locals, unparse

_IDENT = re.compile(r"[A-Za-z_][A-Za-z_0-9]*(?:\.[A-Za-z_][A-Za-z_0-9]*)*")


def _txt(fnode, e):
    return unparse(inline_locals(fnode, e))


def canon_compare(fnode, left, op, right):
    """One comparison -> (key, truth) or None."""
    l, r = _txt(fnode, left), _txt(fnode, right)
    t = type(op)
    if t is ast.Lt:
        return ("%s < %s" % (l, r), True)
    if t is ast.Gt:
        return ("%s < %s" % (r, l), True)
    if t is ast.GtE:
        return ("%s < %s" % (l, r), False)
    if t is ast.LtE:
        return ("%s < %s" % (r, l), False)
    if t in (ast.Eq, ast.NotEq):
        a, b = sorted((l, r))
        return ("%s == %s" % (a, b), t is ast.Eq)
    if t in (ast.Is, ast.IsNot):
        a, b = sorted((l, r))
        return ("%s is %s" % (a, b), t is ast.Is)
    if t in (ast.In, ast.NotIn):
        return ("%s in %s" % (l, r), t is ast.In)
    return None


def atom_facts(fnode, expr, truth):
    """Facts implied by leaf condition `expr` having value `truth` (list of (key, truth))."""
    if isinstance(expr, ast.Compare):
        pairs = []
        left = expr.left
        for op, right in zip(expr.ops, expr.comparators):
            c = canon_compare(fnode, left, op, right)
            if c is None:
                return []
            pairs.append(c)
            left = right
        if truth:
            return pairs
        if len(pairs) == 1:
            k, t = pairs[0]
            return [(k, not t)]
        return []  # a failed chain says only that one link failed
    e = inline_locals(fnode, expr)
    if e is not expr and not isinstance(e, (ast.Name, ast.Attribute, ast.Call, ast.Subscript, ast.Constant)):
        # the temporary stood for a compound condition: decompose that
        out = []

        def atom(x, tr, st):
            st = set(st)
            st.update(atom_facts(fnode, x, tr))
            return frozenset(st)
        r = refine_bool(e, truth, frozenset(), atom, lambda a, b: a & b)
        return sorted(r) if r else out
    return [(unparse(e), truth)]


def mentions(key, name):
    """Does the atom text `key` read the variable / attribute path `name`?"""
    for m in _IDENT.finditer(key):
        tok = m.group(0)
        if tok == name or tok.startswith(name + "."):
            return True
    return False


class Facts:
    def __init__(self, fi):
        self.fi = fi
        self.fnode = fi.node
        self.cfg = cfg_of(fi.node)
        fnode = self.fnode

        def atom(expr, truth, state):
            new = set(state)
            for k, t in atom_facts(fnode, expr, truth):
                if (k, not t) in new:
                    return None  # contradicts what is known: this outcome is infeasible here
                new.add((k, t))
            return frozenset(new)

        def join(a, b):
            return a & b

        def transfer(node, state):
            if state is None:
                return None
            killed = self._killed(node)
            if not killed:
                return state
            return frozenset((k, t) for (k, t) in state if not any(mentions(k, nm) for nm in killed))

        def refine(node, label, state):
            if state is None:
                return None
            if node.kind == "test" and isinstance(label, bool):
                return refine_bool(node.ast, label, state, atom, join)
            return state
        self.ins, self.outs = forward(self.cfg, frozenset(), transfer, join, refine)

    @staticmethod
    def _killed(node):
        st = node.stmt
        if st is None or node.kind in ("test", "except"):
            if node.kind == "except" and isinstance(node.ast, ast.ExceptHandler) and node.ast.name:
                return {node.ast.name}
            return set()
        out = set()
        targets = []
        if node.kind == "stmt":
            if isinstance(st, ast.Assign):
                targets = st.targets
            elif isinstance(st, (ast.AugAssign, ast.AnnAssign)):
                targets = [st.target]
            elif isinstance(st, ast.Delete):
                targets = st.targets
            elif isinstance(st, (ast.Import, ast.ImportFrom)):
                return {(a.asname or a.name).split(".")[0] for a in st.names}
        elif node.kind == "for" and isinstance(st, (ast.For, ast.AsyncFor)):
            targets = [st.target]
        elif node.kind == "with" and isinstance(st, (ast.With, ast.AsyncWith)):
            targets = [it.optional_vars for it in st.items if it.optional_vars is not None]
        for t in targets:
            for x in ast.walk(t):
                if isinstance(x, ast.Name) and isinstance(x.ctx, (ast.Store, ast.Del)):
                    out.add(x.id)
                elif isinstance(x, ast.Attribute) and isinstance(x.ctx, (ast.Store, ast.Del)):
                    d = dotted(x)
                    if d:
                        out.add(d)
                elif isinstance(x, ast.Subscript) and isinstance(x.ctx, (ast.Store, ast.Del)):
                    d = dotted(x.value)
                    if d:
                        out.add(d)
        # walrus
        root = node.ast if node.ast is not None else st
        for x in ast.walk(root):
            if isinstance(x, ast.NamedExpr):
                out.add(x.target.id)
        return out

    # ------------------------------------------------------------------ queries
    def at(self, nid):
        """Facts holding whenever node `nid` is reached; None if it is unreachable."""
        return self.ins.get(nid)

    def at_stmt(self, stmt):
        ids = self.cfg.nodes_of(stmt)
        for i in ids:
            if i in self.ins:
                return self.ins[i]
        return None

    def holds(self, where, key, truth=True):
        f = self.at_stmt(where) if isinstance(where, ast.AST) else self.at(where)
        return f is not None and (key, truth) in f

    def raises(self):
        """[(cfg node, exception class name or None, facts)] for every reachable raise statement."""
        out = []
        for n in self.cfg.nodes:
            if n.kind == "raise_stmt" or (n.kind == "stmt" and isinstance(n.stmt, ast.Raise)):
                f = self.ins.get(n.id)
                if f is None:
                    continue
                exc = n.stmt.exc
                name = dotted(exc.func) if isinstance(exc, ast.Call) else (dotted(exc) if exc is not None else None)
                out.append((n, name, f))
            elif n.kind == "stmt" and isinstance(n.stmt, ast.Assert):
                pass
        return out

    def refusals(self, exc=None):
        """Raises with their facts, filtered by exception class name (last dotted component)."""
        res = []
        for n, name, f in self.raises():
            if exc is None or (name is not None and name.split(".")[-1] in ((exc,) if isinstance(exc, str) else exc)):
                res.append((n, name, f))
        return res

    def refused_when(self, pred, exc=None):
        """Raise nodes (of class `exc`) at which pred(facts) holds."""
        return [n for n, name, f in self.refusals(exc) if pred(f)]

    def keys(self):
        out = set()
        for f in self.ins.values():
            if f:
                out |= {k for k, _t in f}
        return out


_cache = {}


def facts_of(fi):
    k = id(fi.node)
    if k not in _cache or _cache[k][0] is not fi.node:
        _cache[k] = (fi.node, Facts(fi))
    return _cache[k][1]


def has(f, key, truth=True):
    return f is not None and (key, truth) in f
