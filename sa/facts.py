"""E5b - must-facts: which atomic conditions are known true / false whenever a statement is reached.

A forward must-analysis over the statement CFG.  The state is a set of (atom, truth) pairs; branching on a test adds the
facts the taken outcome implies (through not / and / or, with short circuit), joins intersect, assignments kill the
facts that mention the assigned name.  Atoms are compared as canonical text of the *leaf* conditions only:

    a > b   -> (a<b with sides swapped, True)       a >= b -> (a < b, False)       a <= b -> (b < a, False)
    a != b  -> (a == b, False)   (sides of == ordered)    a is not b -> (a is b, False)    a not in b -> (a in b, False)

so that the guard `if not ok: raise`, the guard `if ok: ... else: raise`, an early return, a De Morgan rewrite or an
extracted-and-expanded helper all give the same facts at the same statements.  Single-assignment temporaries are
inlined in the atoms (model.inline_locals).  This is what the "X is refused", "the check precedes the effect" and
"the effect happens only when ..." rules are phrased in, instead of the spelling of one particular `if`.
"""
import ast
import re

from .cfg import cfg_of, forward
from .guards import refine_bool
from .model import dotted, inline_locals, unparse

_IDENT = re.compile(r"[A-Za-z_][A-Za-z_0-9]*(?:\.[A-Za-z_][A-Za-z_0-9]*)*")


GHOST = "__entry"  # `p__entry` in an atom = the value parameter p had when the function was entered


class _Canon(ast.NodeTransformer):
    """Ghost names for parameters that still hold their entry value; module-level numeric/str constants by value."""

    def __init__(self, names, fi):
        self.names = set(names)
        self.fi = fi

    def visit_Name(self, node):
        if isinstance(node.ctx, ast.Load) and node.id in self.names:
            return ast.copy_location(ast.Name(id=node.id + GHOST, ctx=ast.Load()), node)
        return self._const(node)

    def visit_Attribute(self, node):
        r = self._const(node)
        if r is not node:
            return r
        self.generic_visit(node)
        return node

    def _const(self, node):
        fi = self.fi
        if fi is None or not isinstance(node.ctx, ast.Load):
            return node
        d = dotted(node)
        if d is None or d.split(".")[0] in ("self", "cls"):
            return node
        try:
            r = fi.module.repo.resolve_dotted(fi.module, d)
            if r and r[0] in ("global", "classattr"):
                v = fi.module.repo.const_value(fi.module, node)
                if isinstance(v, (int, str, bytes)) and not isinstance(v, bool):
                    return ast.copy_location(ast.Constant(value=v), node)
        except Exception:
            pass
        return node


def _txt(fi, e, ghosts=()):
    from .model import clone
    e = inline_locals(fi.node, e)
    e = _Canon(ghosts, fi).visit(clone(e))
    return unparse(e)


def _is_zero(e):
    return isinstance(e, ast.Constant) and e.value == 0 and not isinstance(e.value, bool)


def canon_compare(fi, left, op, right, ghosts=()):
    """One comparison -> ((op, a, b), truth) or None.  Ordered operators are reduced to '<', '==' / 'is' have sorted sides;
    a difference compared with zero is the comparison of its operands (a - b > 0  ==  b < a)."""
    li, ri = inline_locals(fi.node, left), inline_locals(fi.node, right)
    if _is_zero(ri) and isinstance(li, ast.BinOp) and isinstance(li.op, ast.Sub) and isinstance(op, (ast.Lt, ast.LtE, ast.Gt, ast.GtE, ast.Eq, ast.NotEq)):
        left, right = li.left, li.right
    elif _is_zero(li) and isinstance(ri, ast.BinOp) and isinstance(ri.op, ast.Sub) and isinstance(op, (ast.Lt, ast.LtE, ast.Gt, ast.GtE, ast.Eq, ast.NotEq)):
        left, right = ri.right, ri.left
    l, r = _txt(fi, left, ghosts), _txt(fi, right, ghosts)
    t = type(op)
    if t is ast.Lt:
        return (("<", l, r), True)
    if t is ast.Gt:
        return (("<", r, l), True)
    if t is ast.GtE:
        return (("<", l, r), False)
    if t is ast.LtE:
        return (("<", r, l), False)
    if t in (ast.Eq, ast.NotEq):
        a, b = sorted((l, r))
        return (("==", a, b), t is ast.Eq)
    if t in (ast.Is, ast.IsNot):
        a, b = sorted((l, r))
        return (("is", a, b), t is ast.Is)
    if t in (ast.In, ast.NotIn):
        return (("in", l, r), t is ast.In)
    return None


def atom_facts(fi, expr, truth, ghosts=()):
    """Facts implied by leaf condition `expr` having value `truth` (list of (key, truth)); keys are tuples
    (op, operand text...) with op in '<', '==', 'is', 'in', 'truth'."""
    if isinstance(expr, ast.Compare):
        pairs = []
        left = expr.left
        for op, right in zip(expr.ops, expr.comparators):
            c = canon_compare(fi, left, op, right, ghosts)
            if c is None:
                return []
            pairs.append(c)
            left = right
        if truth:
            return pairs
        if len(pairs) == 1:
            k, t = pairs[0]
            return [(k, not t)]
        return []  # a failed chain says only that one link failed
    e = inline_locals(fi.node, expr)
    if isinstance(e, (ast.BoolOp, ast.Compare)) or (isinstance(e, ast.UnaryOp) and isinstance(e.op, ast.Not)):
        # the temporary stood for a compound condition: decompose that
        def atom(x, tr, st):
            st = set(st)
            st.update(atom_facts(fi, x, tr, ghosts))
            return frozenset(st)
        r = refine_bool(e, truth, frozenset(), atom, lambda a, b: a & b)
        return sorted(r, key=repr) if r else []
    if isinstance(e, ast.Call) and dotted(e.func) == "bool" and len(e.args) == 1:
        return atom_facts(fi, e.args[0], truth, ghosts)
    return [(("truth", _txt(fi, expr, ghosts)), truth)]


def mentions(key, name):
    """Does the atom `key` read the variable / attribute path `name`?"""
    for part in key[1:]:
        for m in _IDENT.finditer(part):
            tok = m.group(0)
            if tok == name or tok.startswith(name + "."):
                return True
    return False


CAP = 16  # alternatives kept apart per program point; beyond that they are merged into their common facts


def _norm(alts):
    """Drop alternatives that are implied by a weaker one (a superset of another alternative's facts adds nothing)."""
    alts = set(alts)
    out = set()
    for a in alts:
        if not any(b < a for b in alts):
            out.add(a)
    if len(out) > CAP:
        common = None
        for a in out:
            common = a if common is None else common & a
        return frozenset([common])
    return frozenset(out)


class Facts:
    """State = set of alternatives, each a set of (atom, truth): "one of these conjunctions holds here"."""

    def __init__(self, fi):
        self.fi = fi
        self.fnode = fi.node
        self.cfg = cfg_of(fi.node)
        fnode = self.fnode
        # a parameter still holds its entry value at a node that no assignment to it can reach
        params = [a.arg for a in ast.walk(fnode.args) if isinstance(a, ast.arg) and a.arg not in ("self", "cls")]
        assigns = {p: [n.id for n in self.cfg.nodes if p in self._killed(n)] for p in params}
        self._ghost_memo = {}
        cur = [None]

        def ghosts_at(nid):
            if nid not in self._ghost_memo:
                self._ghost_memo[nid] = tuple(p for p in params if not any(a == nid or self.cfg.can_reach(a, nid) for a in assigns[p]))
            return self._ghost_memo[nid]
        self.ghosts_at = ghosts_at

        self._flagdefs = {}

        def atom(expr, truth, state):
            # a local that was assigned a condition (`bad = len(k) != n` ... `if bad:`), possibly a different one on each path: on
            # every alternative that knows which, the test is a test of that condition
            if isinstance(expr, ast.Name):
                res, plain = set(), set()
                for alt in state:
                    d = [k for (k, t) in alt if k[0] == "flagdef" and k[1] == expr.id]
                    if len(d) == 1 and d[0][2] in self._flagdefs:
                        r = refine_bool(self._flagdefs[d[0][2]], truth, frozenset([alt]), atom, join)
                        if r:
                            res |= set(r)
                    else:
                        plain.add(alt)
                if res or len(plain) != len(state):
                    rest = None
                    if plain:
                        rest = atom_plain(expr, truth, frozenset(plain))
                    allr = set(res) | (set(rest) if rest else set())
                    return _norm(allr) if allr else None
            return atom_plain(expr, truth, state)

        def atom_plain(expr, truth, state):
            facts = atom_facts(fi, expr, truth, ghosts_at(cur[0]) if cur[0] is not None else ())
            out = set()
            for alt in state:
                if any((k, not t) in alt for k, t in facts):
                    continue  # contradicts what is known on this alternative
                out.add(frozenset(alt | set(facts)))
            return _norm(out) if out else None

        def join(a, b):
            return _norm(a | b)

        def transfer(node, state):
            if state is None:
                return None
            killed = self._killed(node)
            if not killed:
                return state
            state = _norm(frozenset((k, t) for (k, t) in alt if not any(mentions(k, nm) for nm in killed)) for alt in state)
            st_ = node.stmt
            if node.kind == "stmt" and isinstance(st_, ast.Assign) and len(st_.targets) == 1 and isinstance(st_.targets[0], ast.Name):
                v, x = st_.value, st_.targets[0].id
                cond_like = isinstance(v, (ast.Compare, ast.BoolOp)) or (isinstance(v, ast.UnaryOp) and isinstance(v.op, ast.Not)) or \
                    (isinstance(v, ast.Constant) and isinstance(v.value, bool))
                # a query whose answer is kept in a local and tested later (`found = os.path.exists(p)` ... `if found:`): the test is about that answer
                query = isinstance(v, ast.Call) and ((dotted(v.func) or "") in ("os.path.exists", "os.path.isfile", "os.path.isdir", "isinstance", "hasattr", "callable") or
                                                     (isinstance(v.func, ast.Attribute) and v.func.attr in ("exists", "is_dir", "is_file") and not v.args))
                if query and not any(isinstance(y, ast.Name) and y.id == x for y in ast.walk(v)) and not any(isinstance(y, (ast.Await, ast.NamedExpr)) for y in ast.walk(v)):
                    tag = "n%d" % node.id
                    self._flagdefs[tag] = v
                    key = ("flagdef", x, tag, unparse(v))
                    state = _norm(frozenset(alt | {(key, True)}) for alt in state)
                    return state
                if cond_like and not any(isinstance(y, ast.Name) and y.id == x for y in ast.walk(v)) and \
                        not any(isinstance(y, (ast.Call, ast.Await, ast.NamedExpr)) and not (isinstance(y, ast.Call) and dotted(y.func) in ("len", "isinstance", "bool")) for y in ast.walk(v)):
                    tag = "n%d" % node.id
                    self._flagdefs[tag] = v
                    key = ("flagdef", x, tag, unparse(v))
                    state = _norm(frozenset(alt | {(key, True)}) for alt in state)
            return state

        def refine(node, label, state):
            if state is None:
                return None
            if node.kind == "test" and isinstance(label, bool):
                cur[0] = node.id
                return refine_bool(node.ast, label, state, atom, join)
            if node.kind == "stmt" and isinstance(node.stmt, ast.Assert) and label != "assert" and not (isinstance(label, str) and label.startswith("exc")):
                cur[0] = node.id
                return refine_bool(node.stmt.test, True, state, atom, join)
            return state
        self.ins, self.outs = forward(self.cfg, frozenset([frozenset()]), transfer, join, refine)

    @staticmethod
    def _killed(node):
        st = node.stmt
        if st is None or node.kind in ("test", "except"):
            if node.kind == "except" and isinstance(node.ast, ast.ExceptHandler) and node.ast.name:
                return {node.ast.name}
            return set()
        out = set()
        targets = []
        if node.kind == "stmt":
            if isinstance(st, ast.Assign):
                targets = st.targets
            elif isinstance(st, (ast.AugAssign, ast.AnnAssign)):
                targets = [st.target]
            elif isinstance(st, ast.Delete):
                targets = st.targets
            elif isinstance(st, (ast.Import, ast.ImportFrom)):
                return {(a.asname or a.name).split(".")[0] for a in st.names}
        elif node.kind == "for" and isinstance(st, (ast.For, ast.AsyncFor)):
            targets = [st.target]
        elif node.kind == "with" and isinstance(st, (ast.With, ast.AsyncWith)):
            targets = [it.optional_vars for it in st.items if it.optional_vars is not None]
        for t in targets:
            for x in ast.walk(t):
                if isinstance(x, ast.Name) and isinstance(x.ctx, (ast.Store, ast.Del)):
                    out.add(x.id)
                elif isinstance(x, ast.Attribute) and isinstance(x.ctx, (ast.Store, ast.Del)):
                    d = dotted(x)
                    if d:
                        out.add(d)
                elif isinstance(x, ast.Subscript) and isinstance(x.ctx, (ast.Store, ast.Del)):
                    d = dotted(x.value)
                    if d:
                        out.add(d)
        # walrus
        root = node.ast if node.ast is not None else st
        for x in ast.walk(root):
            if isinstance(x, ast.NamedExpr):
                out.add(x.target.id)
        return out

    # ------------------------------------------------------------------ queries
    def alts(self, nid):
        """The alternatives at node `nid` (list of fact sets); None if unreachable."""
        st = self.ins.get(nid)
        return None if st is None else list(st)

    def at(self, nid):
        """Facts holding on every path reaching node `nid`; None if it is unreachable."""
        st = self.ins.get(nid)
        if st is None:
            return None
        common = None
        for a in st:
            common = a if common is None else common & a
        return common if common is not None else frozenset()

    def nid_of(self, where):
        if isinstance(where, int):
            return where
        for i in self.cfg.nodes_of(where):
            if i in self.ins:
                return i
        for i in self.cfg.node_of_expr(where) if hasattr(self.cfg, "node_of_expr") else []:
            if i in self.ins:
                return i
        return None

    def at_stmt(self, stmt):
        i = self.nid_of(stmt)
        return None if i is None else self.at(i)

    def holds(self, where, key, truth=True):
        f = self.at_stmt(where) if isinstance(where, ast.AST) else self.at(where)
        return f is not None and (key, truth) in f

    def one_of(self, where, options):
        """On every path reaching `where`, at least one of the (key, truth) options is known."""
        i = self.nid_of(where)
        st = self.ins.get(i) if i is not None else None
        if st is None:
            return False
        return all(any(o in alt for o in options) for alt in st)

    def raises(self):
        """[(cfg node, exception class name or None, facts)] for every reachable raise statement."""
        out = []
        for n in self.cfg.nodes:
            if n.kind == "raise_stmt" or (n.kind == "stmt" and isinstance(n.stmt, ast.Raise)):
                f = self.at(n.id)
                if f is None:
                    continue
                exc = n.stmt.exc
                name = dotted(exc.func) if isinstance(exc, ast.Call) else (dotted(exc) if exc is not None else None)
                out.append((n, name, f))
            elif n.kind == "stmt" and isinstance(n.stmt, ast.Assert):
                pass
        return out

    def refusals(self, exc=None):
        """Raises with their facts, filtered by exception class name (last dotted component)."""
        res = []
        for n, name, f in self.raises():
            if exc is None or (name is not None and name.split(".")[-1] in ((exc,) if isinstance(exc, str) else exc)):
                res.append((n, name, f))
        return res

    def refused_when(self, pred, exc=None):
        """Raise nodes (of class `exc`) at which pred(facts) holds."""
        return [n for n, name, f in self.refusals(exc) if pred(f)]

    def keys(self):
        out = set()
        for st in self.ins.values():
            for alt in st or ():
                out |= {k for k, _t in alt}
        return out


_cache = {}


def facts_of(fi):
    k = id(fi.node)
    if k not in _cache or _cache[k][0] is not fi.node:
        _cache[k] = (fi.node, Facts(fi))
    return _cache[k][1]


def has(f, key, truth=True):
    return f is not None and (key, truth) in f
