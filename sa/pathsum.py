"""E6c - path summaries of small functions: what each feasible path establishes, stores, returns or raises.

summarize(fi) walks the statement CFG from the entry (loops entered at most `unroll` times) and, per path, keeps
  * the facts the taken branch outcomes imply (facts.atom_facts; a branch outcome contradicting a known fact prunes
    the path, so the enumeration is path-sensitive),
  * an environment of canonical straight.py terms for locals and `self.<attr>` stores (use-def substitution),
  * the returned term, or the raised exception class.
Rules state what must be stored / returned under which facts, which makes them independent of how the branches are
nested, of temporaries, of early returns and of expanded helpers.  Paths through exception edges are not followed
(except into handlers explicitly requested), loops are summarised elsewhere (shape.py).
"""
import ast

from . import straight as S
from .cfg import cfg_of
from .facts import atom_facts, mentions, Facts
from .guards import refine_bool
from .model import dotted


class PathSummary:
    __slots__ = ("facts", "env", "ret", "exc", "nodes", "calls", "looped", "returned", "events")

    def __init__(self):
        self.facts = frozenset()
        self.env = {}
        self.ret = None
        self.exc = None
        self.nodes = []
        self.calls = []      # (cfg node id, canonical call term, facts known at that point) of expression statements, in order
        self.looped = False
        self.returned = False
        self.events = []     # ordered effects: ("store", target text, value term) | ("del", target text) | ("call", term)

    def has(self, pred):
        return any(pred(k, t) for (k, t) in self.facts)

    def store(self, attr):
        return self.env.get("self." + attr)


def _expr(e, env):
    """straight.expr with self.<attr> reads served from recorded stores."""
    class _Env(dict):
        pass
    t = S.expr(e, env)
    return S.canon(_subst_attrs(t, env))


def _subst_attrs(t, env):
    if not isinstance(t, tuple) or not t:
        return t
    if t[0] == "attr" and t[1] == ("var", "self") and ("self." + t[2]) in env:
        return env["self." + t[2]]
    if t[0] == "call" and isinstance(t[1], tuple) and t[1][0] == "fn" and isinstance(t[1][1], str) and t[1][1].startswith("self.") and \
            t[1][1].count(".") == 1 and t[1][1] in env:
        # calling a callable stored on self on this path
        return ("call", ("fnval", env[t[1][1]]), tuple(_subst_attrs(a, env) for a in t[2]), tuple((k, _subst_attrs(v, env)) for k, v in t[3]))
    return tuple(_subst_attrs(x, env) if isinstance(x, tuple) else x for x in t)


def _none_test_outcome(test, ps):
    """`<name> is None` / `is not None` (possibly under `not`) when the path's environment decides it: the name holds the
    constant None, or it holds a value on which a method was already called successfully on this path (so it is not None)."""
    e, pol = test, True
    while isinstance(e, ast.UnaryOp) and isinstance(e.op, ast.Not):
        e, pol = e.operand, not pol
    if not (isinstance(e, ast.Compare) and len(e.ops) == 1 and isinstance(e.ops[0], (ast.Is, ast.IsNot))):
        return None
    a, b = e.left, e.comparators[0]
    if isinstance(a, ast.Constant) and a.value is None:
        a, b = b, a
    if not (isinstance(b, ast.Constant) and b.value is None and isinstance(a, ast.Name)):
        return None
    v = ps.env.get(a.id)
    if v is None:
        return None
    is_none = None
    if v == ("const", None):
        is_none = True
    elif v[0] == "const":
        is_none = False
    else:
        for ev in ps.events:
            if ev[0] == "call" and isinstance(ev[1], tuple) and len(ev[1]) >= 2 and ev[1][0] == "call" and isinstance(ev[1][1], tuple) and \
                    ev[1][1][0] == "method" and ev[1][1][1] == v:
                is_none = False
        # a branch outcome on `<name>.method(...)` recorded as a fact: the method call was evaluated on this path
        for (k, _t) in ps.facts:
            for part in k[1:]:
                if not (isinstance(part, str) and "(" in part and "." in part):
                    continue
                try:
                    pe = ast.parse(part, mode="eval").body
                except SyntaxError:
                    continue
                for c in ast.walk(pe):
                    if isinstance(c, ast.Call) and isinstance(c.func, ast.Attribute) and isinstance(c.func.value, ast.Name) and ps.env.get(c.func.value.id) == v:
                        is_none = False
    if is_none is None:
        return None
    outcome = is_none if isinstance(e.ops[0], ast.Is) else (not is_none)
    return outcome if pol else (not outcome)


def _first_ifexp(e):
    """The first conditional expression of `e` that is evaluated unconditionally (not inside a lambda / comprehension / the
    second operand of and/or / a branch of another conditional)."""
    if isinstance(e, ast.IfExp):
        return e
    if isinstance(e, (ast.Lambda, ast.ListComp, ast.SetComp, ast.DictComp, ast.GeneratorExp)):
        return None
    if isinstance(e, ast.BoolOp):
        return _first_ifexp(e.values[0])
    for c in ast.iter_child_nodes(e):
        if isinstance(c, ast.expr) or isinstance(c, ast.keyword):
            r = _first_ifexp(c.value if isinstance(c, ast.keyword) else c)
            if r is not None:
                return r
    return None


def _replace_node(root, old, new):
    """Copy of expression `root` with the sub-expression `old` (identity) replaced by a copy of `new`."""
    from .model import clone
    if root is old:
        return new
    c = clone(root)

    def twin_of(a, b):
        # the copy has the same shape: walk both in step to find old's counterpart
        if a is old:
            return b
        for (_fa, va), (_fb, vb) in zip(ast.iter_fields(a), ast.iter_fields(b)):
            if isinstance(va, ast.AST):
                r = twin_of(va, vb)
                if r is not None:
                    return r
            elif isinstance(va, list):
                for x, y in zip(va, vb):
                    if isinstance(x, ast.AST):
                        r = twin_of(x, y)
                        if r is not None:
                            return r
        return None
    twin = twin_of(root, c)
    if twin is None:
        return root

    class R(ast.NodeTransformer):
        def visit(self, n):
            if n is twin:
                return clone(new)
            return super().visit(n)
    return ast.fix_missing_locations(R().visit(c))


def summarize(fi, max_paths=400, unroll=1, follow_exc=False):
    cfg = cfg_of(fi.node)
    F = Facts.__new__(Facts)  # only for _killed
    out = []
    params = [a.arg for a in ast.walk(fi.node.args) if isinstance(a, ast.arg) and a.arg not in ("self", "cls")]

    def atom_for(ghosts):
        def atom(expr, truth, state):
            facts = atom_facts(fi, expr, truth, ghosts)
            if any((k, not t) in state for k, t in facts):
                return None
            return frozenset(state | set(facts))
        return atom

    def join(a, b):
        # disjunctive outcome inside one test: keep what both alternatives share
        return a & b

    def walk(nid, ps, visits, rebound, override=None):
        if len(out) >= max_paths:
            return
        node = cfg.nodes[nid]
        st0 = node.stmt
        if node.kind in ("stmt", "return") and isinstance(st0, (ast.Assign, ast.AnnAssign, ast.Return)) and \
                getattr(st0, "value", None) is not None and node.ast is st0:
            # a conditional expression (the value itself, or the first one evaluated inside it) is a branch: one path per outcome
            cur = override if override is not None else st0.value
            ife = _first_ifexp(cur)
            if ife is not None:
                ghosts = tuple(p for p in params if p not in rebound)
                for outcome, branch in ((True, ife.body), (False, ife.orelse)):
                    nps = _fork(ps)
                    r = refine_bool(ife.test, outcome, nps.facts, atom_for(ghosts), join)
                    if r is None:
                        continue
                    nps.facts = r
                    walk(nid, nps, visits, rebound, override=_replace_node(cur, ife, branch))
                return
        if nid == cfg.exit:
            out.append(ps)
            return
        if nid == cfg.raise_exit:
            if ps.exc is None:
                ps.exc = "<propagated>"   # reached over an exception edge: some statement raised
            out.append(ps)
            return
        c = visits.get(nid, 0)
        if c > unroll:
            return
        visits = dict(visits)
        visits[nid] = c + 1
        if c >= 1:
            ps.looped = True
        ps.nodes.append(nid)
        st = node.stmt
        env = ps.env
        # ---- effects of the node
        killed = Facts._killed(node)
        if killed:
            ps.facts = frozenset((k, t) for (k, t) in ps.facts if not any(mentions(k, nm) for nm in killed))
            rebound = rebound | {k for k in killed if k in params}
        try:
            if node.kind == "stmt" and st is not None and node.ast is st:
                if isinstance(st, ast.Assign):
                    v = _expr(override if override is not None else st.value, env)
                    for c_ in _calls_in(override if override is not None else st.value, env):
                        ps.events.append(("call", c_))
                    for t in st.targets:
                        _assign(t, v, env)
                        if not isinstance(t, ast.Name):
                            ps.events.append(("store", _target_text(t, env), v))
                elif isinstance(st, ast.Delete):
                    for t in st.targets:
                        ps.events.append(("del", _target_text(t, env)))
                elif isinstance(st, ast.AnnAssign) and st.value is not None:
                    _assign(st.target, _expr(override if override is not None else st.value, env), env)
                elif isinstance(st, ast.AugAssign):
                    cur = _expr(st.target, env)
                    r = _expr(st.value, env)
                    op = type(st.op).__name__
                    _assign(st.target, S.canon(S.xor(cur, r) if op == "BitXor" else ("op", op, cur, r)), env)
                elif isinstance(st, ast.Expr) and not (isinstance(st.value, ast.Constant)):
                    ps.calls.append((nid, _expr(st.value, env), ps.facts))
                    ps.events.append(("call", _expr(st.value, env)))
                elif isinstance(st, ast.Assert):
                    ghosts = tuple(p for p in params if p not in rebound)
                    r = refine_bool(st.test, True, ps.facts, atom_for(ghosts), join)
                    if r is None:
                        return
                    ps.facts = r
            elif node.kind == "return":
                rv = override if override is not None else st.value
                for c_ in (_calls_in(rv, env) if rv is not None else []):
                    ps.events.append(("call", c_))
                ps.ret = _expr(rv, env) if rv is not None else ("const", None)
                ps.returned = True
            elif node.kind == "raise_stmt":
                exc = st.exc
                ps.exc = (dotted(exc.func) if isinstance(exc, ast.Call) else (dotted(exc) if exc is not None else "reraise")) or "?"
                out.append(ps)
                return
            elif node.kind == "for":
                it = _expr(st.iter, env)
                _assign(st.target, ("elem", it), env)
            elif node.kind == "with":
                for item in st.items:
                    v = _expr(item.context_expr, env)
                    ps.calls.append((nid, v, ps.facts))
                    if item.optional_vars is not None:
                        _assign(item.optional_vars, ("ctx", v), env)
        except S.NotStraight:
            pass
        # ---- successors
        succs = cfg.succ[nid]
        for (b, lab) in succs:
            if isinstance(lab, str) and lab.startswith("exc") and not follow_exc:
                continue
            if lab == "assert":
                continue
            nps = _fork(ps)
            if node.kind == "test" and isinstance(lab, bool):
                ghosts = tuple(p for p in params if p not in rebound)
                known = _none_test_outcome(node.ast, nps)
                if known is not None and known != lab:
                    continue  # `x is None` decided by what x holds on this path
                r = refine_bool(node.ast, lab, nps.facts, atom_for(ghosts), join)
                if r is None:
                    continue  # infeasible given what is known
                nps.facts = r
            walk(b, nps, visits, rebound)

    def _fork(ps):
        n = PathSummary()
        n.facts = ps.facts
        n.env = dict(ps.env)
        n.ret, n.exc = ps.ret, ps.exc
        n.nodes = list(ps.nodes)
        n.calls = list(ps.calls)
        n.looped = ps.looped
        n.returned = ps.returned
        n.events = list(ps.events)
        return n

    walk(cfg.entry, PathSummary(), {}, frozenset())
    return out


def _calls_in(e, env):
    """Canonical terms of the calls inside an expression, innermost first (evaluation order)."""
    from .cfg import calls_in_order
    out = []
    for c in calls_in_order(e):
        try:
            out.append(_expr(c, env))
        except Exception:
            pass
    return out


def _target_text(t, env):
    """'self.attr' / 'name.attr' / ('sub', base text, index term)"""
    if isinstance(t, ast.Subscript):
        d = dotted(t.value) or ast.unparse(t.value)
        idx = ("slice",) if isinstance(t.slice, ast.Slice) else _expr(t.slice, env)
        return ("sub", d, idx)
    return dotted(t) or ast.unparse(t)


def _assign(t, v, env):
    if isinstance(t, ast.Name):
        env[t.id] = v
    elif isinstance(t, ast.Attribute) and isinstance(t.value, ast.Name):
        # self.attr, and attributes set on a local object (b.length = ..)
        env[t.value.id + "." + t.attr] = v
    elif isinstance(t, (ast.Tuple, ast.List)):
        if v[0] == "tuple" and len(v[1]) == len(t.elts):
            for a, b in zip(t.elts, v[1]):
                _assign(a, b, env)
        else:
            for i, a in enumerate(t.elts):
                _assign(a, ("proj", v, i), env)
    elif isinstance(t, ast.Subscript):
        d = dotted(t.value)
        if d:
            env.setdefault("__stores__", ())
            env["__stores__"] = env["__stores__"] + ((d, S.canon(S.expr(t.slice, env)) if not isinstance(t.slice, ast.Slice) else ("slice",), v),)
    # other targets: ignored


def normal(paths):
    """Paths that end in a normal return / fall off the end."""
    return [p for p in paths if p.exc is None]


def raising(paths, exc=None):
    return [p for p in paths if p.exc is not None and (exc is None or p.exc.split(".")[-1] in ((exc,) if isinstance(exc, str) else exc))]


def stores_params(fi, names):
    """Every normal path of the constructor stores each named parameter, unchanged, in the attribute of the same name."""
    ps = [p for p in summarize(fi) if p.exc is None]
    return bool(ps) and all(p.store(n) == ("var", n) for p in ps for n in names)
