"""Symbolic byte lengths of derivation terms (polynomials over configuration parameters with opaque atoms).

length(term) is the number of bytes of a bytes-valued term, value(term) the integer value of an int-valued
term; both are polynomials with integer coefficients whose indeterminates are configuration inputs
(`param_k`), `ENC(n)` (= len(ske.Encrypt(., m)) with len(m) = n), `ceil8(x)`, `pow2(x)` and opaque atoms.
"""
import ast

from .terms import fn_terms, walk, show
from .model import dotted


class Poly:
    __slots__ = ("m",)

    def __init__(self, m=None):
        self.m = {k: v for k, v in (m or {}).items() if v != 0}

    @staticmethod
    def const(c):
        return Poly({(): c})

    @staticmethod
    def atom(name):
        return Poly({(name,): 1})

    def __add__(self, o):
        r = dict(self.m)
        for k, v in o.m.items():
            r[k] = r.get(k, 0) + v
        return Poly(r)

    def __neg__(self):
        return Poly({k: -v for k, v in self.m.items()})

    def __sub__(self, o):
        return self + (-o)

    def __mul__(self, o):
        r = {}
        for k1, v1 in self.m.items():
            for k2, v2 in o.m.items():
                k = tuple(sorted(k1 + k2))
                r[k] = r.get(k, 0) + v1 * v2
        return Poly(r)

    def __eq__(self, o):
        return isinstance(o, Poly) and self.m == o.m

    def __hash__(self):
        return hash(self.canon())

    def is_const(self):
        return all(k == () for k in self.m)

    def const_value(self):
        return self.m.get((), 0) if self.is_const() else None

    def canon(self):
        if not self.m:
            return "0"
        parts = []
        for k in sorted(self.m):
            c = self.m[k]
            if k == ():
                parts.append(str(c))
            else:
                parts.append(("" if c == 1 else "%s*" % c) + "*".join(k))
        return " + ".join(parts)

    def atoms(self):
        out = set()
        for k in self.m:
            out |= set(k)
        return out

    def strip_factors(self, pred):
        """Remove atoms satisfying pred from every monomial (used to compare 'unit' lengths)."""
        r = {}
        for k, v in self.m.items():
            k2 = tuple(a for a in k if not pred(a))
            r[k2] = r.get(k2, 0) + v
        return Poly(r)

    def __repr__(self):
        return "<%s>" % self.canon()


def ceil8(p):
    if all(v % 8 == 0 for v in p.m.values()):
        return Poly({k: v // 8 for k, v in p.m.items()})
    return Poly.atom("ceil8(%s)" % p.canon())


class ConfigFacts:
    """Slot definitions of one scheme's config class, read from _parse_config."""

    def __init__(self, repo, scheme):
        self.repo, self.scheme = repo, scheme
        if scheme.config_cls is None or "_parse_config" not in scheme.config_cls.methods:
            from .model import AnalysisError
            raise AnalysisError("%sConfig._parse_config vanished" % scheme.sse_name)
        self.fi = scheme.config_cls.methods["_parse_config"]
        self.ft = fn_terms(repo, self.fi)
        self.slot_term = {}
        self.prim_kwargs = {}
        self.inputs = set()
        self.dict_param = self.fi.params[1] if len(self.fi.params) > 1 else "config_dict"
        for n in self.ft.cfg.nodes:
            st = n.stmt
            if n.kind != "stmt" or not isinstance(st, ast.Assign):
                continue
            for t in st.targets:
                if isinstance(t, ast.Attribute) and isinstance(t.value, ast.Name) and t.value.id == "self":
                    term = self.ft.term(st.value, n.id)
                    self.slot_term[t.attr] = term
                    if term[0] == "calldyn":
                        self.prim_kwargs[t.attr] = dict(term[3])
                        self.prim_kwargs[t.attr]["__factory__"] = term[1]
                    k = self._input_key(term)
                    if k is not None:
                        self.inputs.add(t.attr)

    def _input_key(self, term):
        if term[0] == "mcall" and term[1] == ("param", self.dict_param) and term[2] == "get" and term[3] and term[3][0][0] == "const":
            return term[3][0][1]
        if term[0] == "sub" and term[1] == ("param", self.dict_param) and term[2][0] == "const":
            return term[2][1]
        return None


class Lengths:
    def __init__(self, repo, scheme, assume_identifier=True):
        self.repo, self.scheme = repo, scheme
        self.cf = ConfigFacts(repo, scheme)
        self.notes = []
        self._slot_memo = {}
        self._active = set()
        self.obj_attr = {}  # (param name, attr) -> Poly
        self._bind_objects()

    def _bind_objects(self):
        """Lengths of key / token attributes, from where the objects are constructed (_Gen / _Trap)."""
        s = self.scheme
        try:
            gen, trap, enc, search = s.method("_Gen"), s.method("_Trap"), s.method("_Enc"), s.method("_Search")
        except Exception:
            return
        for maker, ci, users in ((gen, s.key_cls, [enc.params[1], trap.params[1]]), (trap, s.token_cls, [search.params[2]])):
            if ci is None:
                continue
            attrs = s.ctor_positional(ci)
            ft = fn_terms(self.repo, maker)
            for n in ft.cfg.nodes:
                if n.kind != "return" or n.stmt.value is None:
                    continue
                t = ft.term(n.stmt.value, n.id)
                if not (t[0] == "call" and t[1].endswith(".__init__")):
                    continue
                args = list(t[2])
                if len(args) == 1 and args[0][0] == "star":
                    inner = args[0][1]
                    if inner[0] == "call" and inner[1] == "tuple" and inner[2]:
                        inner = inner[2][0]
                    if inner[0] == "comp":
                        args = [inner[2]] * len([a for a in attrs if a])
                for i, a in enumerate(args):
                    if i < len(attrs) and attrs[i]:
                        p = self.length(a)
                        for u in users:
                            self.obj_attr[(u, attrs[i])] = p

    # -- configuration slots -----------------------------------------------------
    def slot_value(self, name):
        if name in self._slot_memo:
            return self._slot_memo[name]
        if name in self._active:
            return Poly.atom(name)
        self._active.add(name)
        try:
            term = self.cf.slot_term.get(name)
            if term is None or name in self.cf.inputs:
                p = Poly.atom(name)
            elif term[0] == "calldyn":
                p = Poly.atom(name)
            else:
                p = self.value(self._selfnorm(term))
        finally:
            self._active.discard(name)
        self._slot_memo[name] = p
        return p

    def _selfnorm(self, term):
        """Inside _parse_config `self.x` is the slot x."""
        if not isinstance(term, tuple):
            return term
        if term and term[0] == "attr" and term[1] == ("param", "self"):
            return ("cfg", term[2])
        if term and term[0] == "mcall" and term[1] and isinstance(term[1], tuple) and term[1][:2] == ("attr", ("param", "self")):
            # self.rnd.Encrypt(...) inside _parse_config
            return ("prim", term[1][2], term[2], tuple(self._selfnorm(a) for a in term[3]), ())
        return tuple(self._selfnorm(x) if isinstance(x, tuple) else (frozenset(self._selfnorm(y) for y in x) if isinstance(x, frozenset) else x) for x in term)

    def prim_len(self, slot, which):
        kw = self.cf.prim_kwargs.get(slot, {})
        t = kw.get(which)
        if t is None:
            return None
        return self.value(self._selfnorm(t))

    # -- integer values ------------------------------------------------------------
    def value(self, t):
        if not isinstance(t, tuple) or not t:
            return Poly.atom("?")
        tag = t[0]
        if tag == "const":
            if isinstance(t[1], bool) or not isinstance(t[1], int):
                return Poly.atom("const:%r" % (t[1],))
            return Poly.const(t[1])
        if tag == "cfg":
            return self.slot_value(t[1])
        if tag == "binop":
            op = t[1]
            if op in ("Add", "Sub", "Mult"):
                a, b = self.value(t[2]), self.value(t[3])
                return a + b if op == "Add" else (a - b if op == "Sub" else a * b)
            if op == "Pow":
                base = self.value(t[2])
                if base.const_value() == 2:
                    e = self.value(t[3])
                    if e.const_value() is not None and 0 <= e.const_value() < 64:
                        return Poly.const(2 ** e.const_value())
                    return Poly.atom("pow2(%s)" % e.canon())
            if op == "FloorDiv":
                a, b = self.value(t[2]), self.value(t[3])
                if a.const_value() is not None and b.const_value():
                    return Poly.const(a.const_value() // b.const_value())
                if b.const_value() and all(v % b.const_value() == 0 for v in a.m.values()):
                    return Poly({k: v // b.const_value() for k, v in a.m.items()})
                return Poly.atom("(%s)//(%s)" % (a.canon(), b.canon()))
            a, b = self.value(t[2]), self.value(t[3])
            return Poly.atom("(%s %s %s)" % (a.canon(), op, b.canon()))
        if tag == "call":
            name = t[1]
            if name == "len" and t[2]:
                return self.length(t[2][0])
            if name == "math.ceil" and t[2]:
                x = t[2][0]
                if x[0] == "binop" and x[1] == "Div" and self.value(x[3]).const_value() == 8:
                    return ceil8(self.value(x[2]))
                return Poly.atom("ceil(%s)" % self._canon_term(x))
            if name in ("int", "max", "min", "math.floor", "math.log2", "sum"):
                return Poly.atom("%s(%s)" % (name, ",".join(self._canon_term(a) for a in t[2])))
            if name.endswith("::get_total_size"):
                return Poly.atom("N")
        if tag == "attr" and t[1][0] == "cfg" and t[2] in ("output_length", "key_length", "message_length", "key_bit_length", "message_bit_length", "cipher_length"):
            p = self.prim_len(t[1][1], t[2])
            if p is not None:
                return p
            return Poly.atom("%s.%s" % (t[1][1], t[2]))
        if tag == "phi":
            vals = {self.value(x).canon(): self.value(x) for x in t[1]}
            if len(vals) == 1:
                return next(iter(vals.values()))
        return Poly.atom(self._canon_term(t))

    def _canon_term(self, t):
        if isinstance(t, tuple) and t and t[0] in ("const", "cfg", "binop"):
            return self.value(t).canon()
        return show(t, maxdepth=6)

    # -- byte lengths ----------------------------------------------------------------
    def length(self, t):
        if not isinstance(t, tuple) or not t:
            return Poly.atom("len(?)")
        tag = t[0]
        if tag == "const":
            if isinstance(t[1], (bytes, str)):
                return Poly.const(len(t[1]))
            return Poly.atom("len(const)")
        if tag == "binop":
            if t[1] == "Add":
                return self.length(t[2]) + self.length(t[3])
            if t[1] == "Mult":
                for a, b in ((t[2], t[3]), (t[3], t[2])):
                    if a[0] == "const" and isinstance(a[1], bytes):
                        return Poly.const(len(a[1])) * self.value(b)
        if tag == "call":
            name = t[1]
            if name in ("os.urandom", "secrets.token_bytes", "random.randbytes") and t[2]:
                return self.value(t[2][0])
            if name.endswith("::int_to_bytes"):
                w = t[2][1] if len(t[2]) > 1 else dict(t[3]).get("output_len")
                if w is not None:
                    return self.value(w)
                return Poly.atom("minbytes(%s)" % show(t[2][0], maxdepth=3))
            if name.endswith("::bytes_xor") and t[2]:
                return self.length(t[2][0])
            if name.endswith("::add_leading_zeros") and len(t[2]) >= 2:
                return Poly.atom("max(%s,%s)" % (self.value(t[2][1]).canon(), self.length(t[2][0]).canon()))
            if name == "bytes" and t[2]:
                x = t[2][0]
                bits = self.bits(x)
                if bits is not None:
                    return ceil8(bits)
                return self.length(x)
            if name.endswith("::partition_identifiers_to_blocks"):
                return Poly.atom("blocks")
        if tag == "elem" and t[1][0] == "call" and t[1][1].endswith("::partition_identifiers_to_blocks"):
            a, kw = t[1][2], dict(t[1][3])
            bs = kw.get("block_size_bytes") or (a[3] if len(a) > 3 else None)
            if bs is not None:
                return self.value(bs)
            return self.value(a[1]) * self.value(a[2])
        if tag == "prim":
            slot, meth, args = t[1], t[2], t[3]
            if meth == "Encrypt" and len(args) >= 2:
                return Poly.atom("ENC(%s)" % self.length(args[1]).canon())
            if meth == "KeyGen":
                p = self.prim_len(slot, "key_length")
                return p if p is not None else Poly.atom("%s.key_length" % slot)
            if meth is None:
                p = self.prim_len(slot, "output_length")
                if p is not None:
                    return p
                return Poly.atom("%s.output_length" % slot)
            if meth == "Decrypt":
                return Poly.atom("DEC(%s)" % self.length(args[1]).canon() if len(args) > 1 else "DEC")
        if tag == "piece":
            lens = t[3]
            if lens[0] in ("list", "tuple") and isinstance(t[2], int) and t[2] < len(lens[1]):
                return self.value(lens[1][t[2]])
        if tag == "slice":
            lo, hi = t[2], t[3]
            if lo is None and hi is not None:
                h = self.value(hi)
                if hi[0] == "unop" and hi[1] == "USub":
                    return self.length(t[1]) - self.value(hi[2])
                return h
            if lo is not None and hi is None:
                if lo[0] == "unop" and lo[1] == "USub":
                    return self.value(lo[2])
                return self.length(t[1]) - self.value(lo)
            if lo is not None and hi is not None:
                return self.value(hi) - self.value(lo)
        if tag == "mcall" and t[2] == "join" and t[3]:
            seq = t[3][0]
            if seq[0] == "comp":
                cnt = self.count(seq)
                return cnt * self.length(seq[2])
            if seq[0] == "cont":
                # join of a local list: sum is unknown, but the element length is what matters
                els = self.elem_lengths(seq)
                if len(els) == 1:
                    return Poly.atom("count(%s)" % seq[1]) * next(iter(els.values()))
            return Poly.atom("len(join(%s))" % show(seq, maxdepth=3))
        if tag == "phi":
            vals = {}
            for x in t[1]:
                p = self.length(x)
                vals[p.canon()] = p
            if len(vals) == 1:
                return next(iter(vals.values()))
            return Poly.atom("phi{%s}" % " | ".join(sorted(vals)))
        if tag in ("sub", "elem"):
            # an element of a list of keys / blocks
            base = t[1]
            if base[0] == "cont":
                els = self.elem_lengths(base)
                if len(els) == 1:
                    return next(iter(els.values()))
                if els:
                    return Poly.atom("phi{%s}" % " | ".join(sorted(els)))
            if self._is_identifier(t):
                return self.slot_value("param_identifier_size") if "param_identifier_size" in self.cf.slot_term else Poly.atom("idsize")
        if tag == "attr" and t[1][0] == "param" and (t[1][1], t[2]) in self.obj_attr:
            return self.obj_attr[(t[1][1], t[2])]
        if tag == "proj" and t[1][0] == "comp":
            return self.length(t[1][2])
        if tag == "proj" and isinstance(t[2], int):
            comps = {}
            for x in walk(t[1]):
                if isinstance(x, tuple) and x and x[0] == "tuple" and len(x[1]) > t[2]:
                    c = x[1][t[2]]
                    if c == ("const", None):
                        continue
                    p = self.length(c)
                    comps[p.canon()] = p
            if len(comps) == 1:
                return next(iter(comps.values()))
        if tag == "cont":
            return self.length(t[2]) if t[2][0] not in ("list", "dict") else Poly.atom("len(%s)" % t[1])
        if tag == "call" and t[1] in ("bytes", "bytearray"):
            return Poly.atom("len(bytes)")
        return Poly.atom("len(%s)" % show(t, maxdepth=4))

    def _is_identifier(self, t):
        """elem(database[kw]) / database[kw][i]: an identifier (assumed to have param_identifier_size bytes)."""
        for x in walk(t):
            if isinstance(x, tuple) and x and x[0] == "param" and x[1] in self._db_params():
                return True
        return False

    def _db_params(self):
        """Names under which the plaintext database reaches the scheme: the third parameter of _Enc / EDBSetup."""
        if getattr(self, "_dbp", None) is None:
            names = set()
            for mn in ("_Enc", "EDBSetup"):
                try:
                    m = self.scheme.method(mn)
                except Exception:
                    m = None
                if m is not None and len(m.params) > 2:
                    names.add(m.params[2])
            self._dbp = names or {"database"}
        return self._dbp

    def elem_lengths(self, cont):
        out = {}
        init = cont[2]
        if init[0] in ("list", "tuple"):
            for x in init[1]:
                p = self.length(x)
                out[p.canon()] = p
        for m in cont[3]:
            if m[0] in ("append", "add") and m[2]:
                p = self.length(m[2][0])
                out[p.canon()] = p
        return out

    def count(self, comp):
        """Number of elements a comprehension produces (product of generator sizes)."""
        total = Poly.const(1)
        for (names, it, conds) in comp[3]:
            if conds:
                return Poly.atom("count(filtered)")
            if it[0] == "call" and it[1] == "range":
                a = it[2]
                if len(a) == 1:
                    total = total * self.value(a[0])
                elif len(a) >= 2:
                    total = total * (self.value(a[1]) - self.value(a[0]))
            else:
                total = total * Poly.atom("count(%s)" % show(it, maxdepth=3))
        return total

    def bits(self, t):
        """Bit length of a Bitset-valued term."""
        if t[0] == "prim" and t[2] is None and t[1].startswith("prp"):
            return self.prim_len(t[1], "message_bit_length")
        if t[0] == "call" and t[1].endswith("Bitset.__init__"):
            ln = dict(t[3]).get("length") or (t[2][1] if len(t[2]) > 1 else None)
            if ln is not None:
                return self.value(ln)
        if t[0] == "phi":
            vals = [self.bits(x) for x in t[1] if x != ("const", None)]
            if vals and all(v is not None and v == vals[0] for v in vals):
                return vals[0]
        if t[0] == "binop" and t[1] == "Add":
            a, b = self.bits(t[2]), self.bits(t[3])
            if a is not None and b is not None:
                return a + b
        return None
