"""E6d - integer identities between two canonical terms (straight.py), decided by evaluating both on a finite grid.

The width and split computations of the bit / byte toolkit are integer expressions in one or two non-negative quantities
(`len(x)`, `self.length`, `x.bit_length()`): `(n + 7) // 8`, `-(-n // 8)`, `n - n // 2`, `(n + 1) // 2` ...  Rules used to
list the spellings they accept; here a candidate is accepted when it evaluates like the reference spelling for every assignment
of 0..LIMIT to the free quantities.  Every sub-term that is not integer arithmetic is a free quantity; true division, calls
other than min / max / abs / divmod and anything else the evaluator does not know make the comparison fail (-> not accepted),
so a float-valued or data-dependent width is never blessed.  All expressions concerned are built from floor division and
remainder by small constants, hence eventually periodic with a period far below the grid size.
"""
LIMIT1 = 600     # one free quantity
LIMIT2 = 40      # two free quantities (each)


class _No(Exception):
    pass


def _free(t, acc):
    if not isinstance(t, tuple) or not t:
        raise _No()
    tag = t[0]
    if tag == "const":
        if isinstance(t[1], bool) or not isinstance(t[1], int):
            raise _No()
        return
    if tag == "cat":
        for x in t[1]:
            _free(x, acc)
        return
    if tag == "op" and t[1] in ("Sub", "FloorDiv", "Mod", "Mult", "LShift", "RShift"):
        _free(t[2], acc)
        _free(t[3], acc)
        return
    if tag == "op":
        raise _No()      # Div, Pow, ...: not integer-safe
    if tag == "un" and t[1] == "USub":
        _free(t[2], acc)
        return
    if tag == "call" and t[1] in (("fn", "max"), ("fn", "min")) and not t[3]:
        args = t[2][0][1] if len(t[2]) == 1 and t[2][0][0] in ("tuple", "list") else t[2]
        for a in args:
            _free(a, acc)
        return
    if tag == "call" and t[1] == ("fn", "abs") and len(t[2]) == 1:
        _free(t[2][0], acc)
        return
    if tag == "proj" and isinstance(t[2], int) and t[1][0] == "call" and t[1][1] == ("fn", "divmod") and len(t[1][2]) == 2:
        _free(t[1][2][0], acc)
        _free(t[1][2][1], acc)
        return
    if tag in ("var", "attr", "call", "sub"):
        if t not in acc:
            acc.append(t)
        return
    raise _No()


def _ev(t, env):
    tag = t[0]
    if tag == "const":
        return t[1]
    if t in env:
        return env[t]
    if tag == "cat":
        return sum(_ev(x, env) for x in t[1])
    if tag == "op":
        a, b = _ev(t[2], env), _ev(t[3], env)
        if t[1] == "Sub":
            return a - b
        if t[1] == "Mult":
            return a * b
        if t[1] in ("FloorDiv", "Mod"):
            if b == 0:
                raise _No()
            return a // b if t[1] == "FloorDiv" else a % b
        if t[1] == "LShift":
            if b < 0 or b > 64:
                raise _No()
            return a << b
        if t[1] == "RShift":
            if b < 0:
                raise _No()
            return a >> b
    if tag == "un":
        return -_ev(t[2], env)
    if tag == "call" and t[1] in (("fn", "max"), ("fn", "min")):
        args = t[2][0][1] if len(t[2]) == 1 and t[2][0][0] in ("tuple", "list") else t[2]
        vals = [_ev(a, env) for a in args]
        return max(vals) if t[1][1] == "max" else min(vals)
    if tag == "call" and t[1] == ("fn", "abs"):
        return abs(_ev(t[2][0], env))
    if tag == "proj":
        a, b = _ev(t[1][2][0], env), _ev(t[1][2][1], env)
        if b == 0:
            raise _No()
        return divmod(a, b)[t[2]]
    raise _No()


def same_integer(candidate, reference, conds=()):
    """True when both terms are integer expressions over the same (at most two) free quantities and agree on the whole grid -
    restricted, if `conds` = [(term, truth)] is given, to the grid points where bool(term) == truth (the branch conditions under
    which the candidate is what is computed)."""
    if candidate == reference:
        return True
    try:
        fa, fb = [], []
        _free(candidate, fa)
        _free(reference, fb)
        for c_, _t in conds:
            _free(c_, fa)
        if conds:
            free = fb + [x for x in fa if x not in fb]
            if len(free) != 1 or any(x not in fb for x in fa):
                return False
            pts = [n for n in range(LIMIT1) if all(bool(_ev(c_, {free[0]: n})) == t_ for c_, t_ in conds)]
            return bool(pts) and all(_ev(candidate, {free[0]: n}) == _ev(reference, {free[0]: n}) for n in pts)
        free = fb + [x for x in fa if x not in fb]
        if len(free) > 2 or any(x not in fb for x in fa):
            return False
        if not free:
            return _ev(candidate, {}) == _ev(reference, {})
        if len(free) == 1:
            return all(_ev(candidate, {free[0]: n}) == _ev(reference, {free[0]: n}) for n in range(LIMIT1))
        return all(_ev(candidate, {free[0]: n, free[1]: m}) == _ev(reference, {free[0]: n, free[1]: m}) for n in range(LIMIT2) for m in range(LIMIT2))
    except _No:
        return False
    except Exception:
        return False
