"""E1b - normal form of the parsed program: helpers and constants the reference model does not know are expanded in place.

The rules of this checker were written against the functions that exist at the pinned commit (sa/known_symbols.json,
generated once by tools/gen_known.py and never at check time).  A later change may move code into a *new* private helper
("extract method"), or a literal into a *new* module constant.  Such a change does not alter behaviour, so it must not
alter the verdict.  Before any rule runs, every call to a function the table does not list is replaced by the body of
that function (parameters bound, locals renamed on collision, `return` eliminated structurally), and every use of a
module-level / class-level constant the table does not list is replaced by its literal value.  Functions the table
lists are never touched, so on the pinned tree this pass is the identity.

The expansion is semantics preserving for the forms it accepts and leaves every other call alone:
  * callee defined in the same module, resolved uniquely (plain name, self.m / cls.m / Class.m), not recursive, no
    generator, no decorators other than staticmethod/classmethod, no *args/**kwargs, no nested defs, no global/nonlocal;
  * `return f(..)` / `return await f(..)`            -> body spliced, its returns kept (tail position);
  * `f(..)` / `await f(..)` as a statement            -> body spliced, returns eliminated (if/else restructuring; returns
                                                        inside loops are refused; with/try only in tail position);
  * `x = f(..)` / `x = await f(..)`                  -> same, `return v` becomes `x = v`;
  * a call nested in an expression                   -> substituted when the callee is a single `return <expr>`;
                                                        otherwise hoisted into a fresh temporary in front of the
                                                        statement when it is the first call evaluated by the statement.
A definition whose every use was expanded is removed; one that is still referenced (passed as a value, called through an
unresolvable receiver) stays and is analysed as its own function.
"""
import ast
import copy
import json
import os

from .model import dotted, unparse, clone, set_parents

KNOWN_PATH = os.path.join(os.path.dirname(os.path.abspath(__file__)), "known_symbols.json")

_FUNC = (ast.FunctionDef, ast.AsyncFunctionDef)


class NotInlinable(Exception):
    pass


def load_known():
    with open(KNOWN_PATH) as f:
        return json.load(f)


# ---------------------------------------------------------------------------------------------------------------------
# eligibility


def _docless(body):
    if body and isinstance(body[0], ast.Expr) and isinstance(body[0].value, ast.Constant) and isinstance(body[0].value.value, str):
        body = body[1:]
    while body and isinstance(body[0], ast.Global):      # (expanded only into callers that declare the same names global, see Expander.target)
        body = body[1:]
    return body


def _leading_globals(fnode):
    """Names declared `global` at the head of the function, or None when a `global` statement stands anywhere else."""
    body = fnode.body
    if body and isinstance(body[0], ast.Expr) and isinstance(body[0].value, ast.Constant) and isinstance(body[0].value.value, str):
        body = body[1:]
    names = set()
    i = 0
    while i < len(body) and isinstance(body[i], ast.Global):
        names |= set(body[i].names)
        i += 1
    for st in body[i:]:
        for x in ast.walk(st):
            if isinstance(x, ast.Global):
                return None
    return names


def _own_nodes(fnode):
    """Nodes of the function excluding nested function/lambda/class bodies."""
    stack = list(ast.iter_child_nodes(fnode))
    while stack:
        n = stack.pop()
        yield n
        if isinstance(n, _FUNC + (ast.Lambda, ast.ClassDef)):
            continue
        stack.extend(ast.iter_child_nodes(n))


def is_simple_generator(fnode):
    """A generator whose every `yield` is a statement of its own (`yield E`), without `yield from` and without `return <value>`: consumed
    at once by `<list>.extend(gen(...))` it is the same as its body with `<list>.append(E)` in place of the yields."""
    ys = [x for x in _own_nodes(fnode) if isinstance(x, ast.Yield)]
    if not ys or any(isinstance(x, ast.YieldFrom) for x in _own_nodes(fnode)):
        return False
    stmt_yields = {id(x.value) for x in _own_nodes(fnode) if isinstance(x, ast.Expr) and isinstance(x.value, ast.Yield)}
    if any(id(y) not in stmt_yields for y in ys) or any(y.value is None for y in ys):
        return False
    if any(isinstance(x, ast.Return) and x.value is not None for x in _own_nodes(fnode)):
        return False
    return not isinstance(fnode, ast.AsyncFunctionDef)


def eligible(fi):
    n = fi.node
    if n.name.startswith("__") and n.name.endswith("__"):
        return False
    for d in n.decorator_list:
        if unparse(d) not in ("staticmethod", "classmethod"):
            return False
    a = n.args
    if a.vararg:
        return False
    # (a **kwargs parameter is bound to the dict of the call's surplus keywords, see Expander._bind)
    for d in list(a.defaults) + [d for d in a.kw_defaults if d is not None]:
        if not isinstance(d, ast.Constant) and not (isinstance(d, ast.UnaryOp) and isinstance(d.operand, ast.Constant)) \
                and dotted(d) is None:
            return False
    gen = is_simple_generator(n)
    own_names = {x.arg for x in ast.walk(a) if isinstance(x, ast.arg)} | _stored_names(n.body) | _comp_names(n.body)
    for x in _own_nodes(n):
        if isinstance(x, ast.Lambda):
            # a closed lambda (`key=lambda pair: pair[0]`): it names only its own parameters and module-level things, none of them
            # spelled like a parameter or local of the helper - it means the same wherever it is copied to
            la = {y.arg for y in ast.walk(x.args) if isinstance(y, ast.arg)}
            inner = {y.id for y in ast.walk(x.body) if isinstance(y, ast.Name)}
            if la & own_names or (inner - la) & own_names or x.args.defaults or x.args.kw_defaults or \
                    any(isinstance(y, (ast.Lambda, ast.NamedExpr, ast.Yield, ast.Await)) for y in ast.walk(x.body)):
                return False
            continue
        if isinstance(x, (ast.YieldFrom, ast.Nonlocal, ast.ClassDef) + _FUNC):
            return False
        if isinstance(x, ast.Global) and _leading_globals(n) is None:
            return False
        if isinstance(x, ast.Yield) and not gen:
            return False
        if isinstance(x, ast.Call) and dotted(x.func) in ("locals", "vars", "globals", "super"):
            return False
    return True


def recv_param_name(a):
    allp = [x.arg for x in a.posonlyargs] + [x.arg for x in a.args]
    return allp[0] if allp else None


def _kind(fi):
    decs = [unparse(d) for d in fi.node.decorator_list]
    if fi.cls is None or fi.outer is not None:
        return "function"
    if "staticmethod" in decs:
        return "static"
    if "classmethod" in decs:
        return "class"
    return "method"


# ---------------------------------------------------------------------------------------------------------------------
# the expansion of one call


def _simple(e):
    """Argument expressions that can be substituted for a parameter without changing evaluation."""
    if isinstance(e, ast.Constant):
        return True
    if isinstance(e, ast.Name):
        return True
    if isinstance(e, ast.Attribute):
        return _simple(e.value)
    if isinstance(e, ast.UnaryOp) and isinstance(e.operand, ast.Constant):
        return True
    return False


def _effect_free(e):
    return not any(isinstance(x, (ast.Call, ast.Await, ast.Yield, ast.YieldFrom, ast.NamedExpr)) for x in ast.walk(e))


def _stored_names(nodes):
    out = set()
    for root in nodes:
        for x in ast.walk(root):
            if isinstance(x, ast.Name) and isinstance(x.ctx, (ast.Store, ast.Del)):
                out.add(x.id)
            elif isinstance(x, ast.ExceptHandler) and x.name:
                out.add(x.name)
            elif isinstance(x, (ast.Import, ast.ImportFrom)):
                for al in x.names:
                    out.add((al.asname or al.name).split(".")[0])
    return out


def _comp_names(nodes):
    out = set()
    for root in nodes:
        for x in ast.walk(root):
            if isinstance(x, ast.comprehension):
                for y in ast.walk(x.target):
                    if isinstance(y, ast.Name):
                        out.add(y.id)
    return out


class _Subst(ast.NodeTransformer):
    def __init__(self, mapping, rename):
        self.mapping = mapping  # param name -> expression
        self.rename = rename    # local name -> new local name

    def visit_Name(self, node):
        if node.id in self.rename:
            return ast.copy_location(ast.Name(id=self.rename[node.id], ctx=node.ctx), node)
        if isinstance(node.ctx, ast.Load) and node.id in self.mapping:
            return ast.copy_location(clone(self.mapping[node.id]), node)
        return node

    def visit_ExceptHandler(self, node):
        self.generic_visit(node)
        if node.name in self.rename:
            node.name = self.rename[node.name]
        return node


def _contains_return(st):
    return any(isinstance(x, ast.Return) for x in ([st] if isinstance(st, ast.Return) else _own_nodes(st)))


def _eliminate(stmts, k, tail):
    """Rewrite a statement list so that `return v` becomes k(v) followed by leaving the list.

    `tail` says the list is in tail position of the spliced block (nothing runs after it), which is what makes a
    replaced return inside with/try equivalent.  Returns (new statements, always_returns)."""
    out = []
    for i, st in enumerate(stmts):
        last = i == len(stmts) - 1
        if isinstance(st, ast.Return):
            out.extend(k(st.value, st))
            return out, True
        if not _contains_return(st):
            out.append(st)
            continue
        rest = stmts[i + 1:]
        if isinstance(st, ast.If):
            sub_tail = tail and not rest
            b, br = _eliminate(st.body, k, sub_tail)
            o, orr = _eliminate(st.orelse, k, sub_tail)
            new = ast.copy_location(ast.If(test=st.test, body=b, orelse=o), st)
            if br and orr:
                new.body = b or [ast.copy_location(ast.Pass(), st)]
                out.append(new)
                return out, True
            rest_new, rr = _eliminate(rest, k, tail) if rest else ([], False)
            if br:
                new.body = b or [ast.copy_location(ast.Pass(), st)]
                new.orelse = o + rest_new
                out.append(new)
                return out, rr and bool(rest)
            if orr:
                new.body = (b + rest_new) or [ast.copy_location(ast.Pass(), st)]
                new.orelse = o
                out.append(new)
                return out, rr and bool(rest)
            # conditional returns nested deeper on both sides: each side continues with its own copy of the rest
            new.body = (b + clone(rest_new)) or [ast.copy_location(ast.Pass(), st)]
            new.orelse = o + rest_new
            out.append(new)
            return out, rr and bool(rest)
        if isinstance(st, (ast.With, ast.AsyncWith)) and last and tail:
            b, br = _eliminate(st.body, k, True)
            new = copy.copy(st)
            new.body = b or [ast.copy_location(ast.Pass(), st)]
            out.append(new)
            return out, br
        if isinstance(st, ast.Try) and last and tail and not st.orelse and not any(_contains_return(x) for x in st.finalbody):
            new = copy.copy(st)
            b, br = _eliminate(st.body, k, True)
            new.body = b or [ast.copy_location(ast.Pass(), st)]
            hs, allr = [], br
            for h in st.handlers:
                hb, hr = _eliminate(h.body, k, True)
                nh = copy.copy(h)
                nh.body = hb or [ast.copy_location(ast.Pass(), h)]
                hs.append(nh)
                allr = allr and hr
            new.handlers = hs
            out.append(new)
            return out, allr
        raise NotInlinable("return inside %s" % type(st).__name__)
    # (a list that ends by raising never falls off its end either)
    return out, bool(out) and isinstance(out[-1], ast.Raise)


class Expander:
    def __init__(self, repo, unknown):
        self.repo = repo
        self.unknown = unknown  # key -> FunctionInfo
        self.counter = 0
        self.log = []           # (caller key, callee key, mode)
        self._foreign_memo = {}
        self._respell = {}          # (callee key, caller rel) -> {global name of the callee's module: module alias in the caller's module}
        self.imports_needed = {}    # rel -> {local name: dotted target}: what expanded bodies from other modules refer to

    # -- binding ---------------------------------------------------------------------------------------------------
    def _bind(self, callee, call, caller_names):
        """-> (mapping param->expr for direct substitution, prelude statements, rename map)"""
        fnode = callee.node
        a = fnode.args
        posonly = [x.arg for x in a.posonlyargs]
        params = posonly + [x.arg for x in a.args]
        kind = _kind(callee)
        mapping, pre = {}, []
        values = {}
        if kind in ("method", "class"):
            if not params:
                raise NotInlinable("no receiver parameter")
            recv_param = params[0]
            params = params[1:]
            f = call.func
            if kind == "method":
                if not (isinstance(f, ast.Attribute) and _simple(f.value)):
                    raise NotInlinable("receiver")
                if isinstance(f.value, ast.Name) and f.value.id == callee.cls.name:
                    # Class.m(obj, ...) form
                    if not call.args:
                        raise NotInlinable("unbound call without receiver")
                    values[recv_param] = call.args[0]
                    call = copy.copy(call)
                    call.args = call.args[1:]
                else:
                    values[recv_param] = f.value
            else:
                values[recv_param] = ast.Name(id=callee.cls.name, ctx=ast.Load())
        if any(isinstance(x, ast.Starred) for x in call.args):
            raise NotInlinable("star args")
        kwonly = [x.arg for x in a.kwonlyargs]
        if any(kw.arg is None for kw in call.keywords):
            # f(..., **m): m is handed on to the callee's ** parameter.  A key of m that names a parameter of the callee would be bound to that
            # parameter (or raise "multiple values"); that is excluded when m is the caller's own ** parameter and every nameable parameter of
            # the callee is also a named parameter of the caller (then m cannot hold it), or the callee has no nameable parameter at all
            if a.kwarg is None:
                raise NotInlinable("star args")
            from .model import enclosing_function
            cf = enclosing_function(call)
            cparams = set()
            ckw = None
            if isinstance(cf, (ast.FunctionDef, ast.AsyncFunctionDef)):
                cparams = {x.arg for x in cf.args.args + cf.args.kwonlyargs}
                ckw = cf.args.kwarg.arg if cf.args.kwarg is not None else None
            nameable = [p_ for p_ in params if p_ not in posonly] + kwonly
            for kw in call.keywords:
                if kw.arg is None and not (isinstance(kw.value, ast.Name) and kw.value.id == ckw and all(p_ in cparams for p_ in nameable)):
                    raise NotInlinable("star args")
        if len(call.args) > len(params):
            raise NotInlinable("too many args")
        for p, v in zip(params, call.args):
            values[p] = v
        surplus = []
        for kw in call.keywords:
            if kw.arg is None:
                surplus.append(kw)
                continue
            if kw.arg in posonly:
                if a.kwarg is None:
                    raise NotInlinable("keyword")
                surplus.append(kw)
                continue
            if kw.arg in values:
                raise NotInlinable("keyword")
            if kw.arg not in params + kwonly:
                if a.kwarg is None:
                    raise NotInlinable("keyword")
                surplus.append(kw)
                continue
            values[kw.arg] = kw.value
        if a.kwarg is not None:
            # **kw  :=  {"k1": v1, **m, ...} of the keywords no parameter takes
            values[a.kwarg.arg] = ast.Dict(keys=[ast.Constant(value=k.arg) if k.arg is not None else None for k in surplus], values=[k.value for k in surplus])
        defaults = dict(zip(params[len(params) - len(a.defaults):], a.defaults)) if a.defaults else {}
        for p, d in zip(kwonly, a.kw_defaults):
            if d is not None:
                defaults[p] = d
        all_params = (([x.arg for x in a.posonlyargs] + [x.arg for x in a.args])[:1] if kind in ("method", "class") else []) + params + kwonly + ([a.kwarg.arg] if a.kwarg is not None else [])
        for p in all_params:
            if p not in values:
                if p not in defaults:
                    raise NotInlinable("missing argument %s" % p)
                values[p] = defaults[p]
        body = _docless(fnode.body)
        stored = _stored_names(body)
        attr_stores = {x.attr for st in body for x in ast.walk(st) if isinstance(x, ast.Attribute) and isinstance(x.ctx, (ast.Store, ast.Del))}
        comp = _comp_names(body)
        self.counter += 1
        tag = "__inl%d" % self.counter
        rename = {}
        gl = _leading_globals(fnode) or set()
        for nm in stored:
            if nm in all_params or nm in gl:
                continue
            if nm in caller_names:
                rename[nm] = nm + tag
        for nm in comp:
            if nm in caller_names and nm not in rename and any(
                    isinstance(v, ast.AST) and any(isinstance(y, ast.Name) and y.id == nm for y in ast.walk(v)) for v in values.values()):
                rename[nm] = nm + tag
        uses = {}
        for st in body:
            for x in ast.walk(st):
                if isinstance(x, ast.Name) and isinstance(x.ctx, ast.Load):
                    uses[x.id] = uses.get(x.id, 0) + 1
        for p in all_params:
            v = values[p]
            direct = False
            if p not in stored:
                if isinstance(v, ast.Attribute) and v.attr in attr_stores:
                    direct = False
                elif _simple(v):
                    direct = True
                elif uses.get(p, 0) <= 1 and (_effect_free(v) or _pure_enough(v)) and not self._in_loop_use(body, p):
                    direct = True
            if direct:
                mapping[p] = v
            else:
                newp = p + tag if (p in caller_names) else p
                if newp != p:
                    rename[p] = newp
                pre.append(ast.copy_location(ast.Assign(targets=[ast.Name(id=newp, ctx=ast.Store())], value=clone(v)), call))
        cm = getattr(self, "_caller", None)
        if cm is not None and callee.module is not cm.module:
            for nm, alias in (self._respell.get((callee.key, cm.module.rel)) or {}).items():
                if nm not in all_params and nm not in stored:
                    mapping[nm] = ast.Attribute(value=ast.Name(id=alias, ctx=ast.Load()), attr=nm, ctx=ast.Load())
        return mapping, pre, rename, body

    @staticmethod
    def _in_loop_use(body, p):
        for st in body:
            for x in ast.walk(st):
                if isinstance(x, (ast.For, ast.AsyncFor, ast.While, ast.ListComp, ast.SetComp, ast.DictComp, ast.GeneratorExp)):
                    if any(isinstance(y, ast.Name) and y.id == p for y in ast.walk(x)):
                        return True
        return False

    def _body(self, callee, call, caller_names, into=None):
        mapping, pre, rename, body = self._bind(callee, call, caller_names)
        if into is not None:
            # `x = f(..)` where every return of f hands back one and the same local y: call that local x (so that an
            # extracted 'create, configure, return it' block reads exactly as it did in place)
            rets = [r for st in body for r in ([st] if isinstance(st, ast.Return) else _own_nodes(st)) if isinstance(r, ast.Return)]
            ys = {r.value.id if isinstance(r.value, ast.Name) else None for r in rets}
            if len(ys) == 1 and None not in ys:
                y = next(iter(ys))
                params = {a.arg for a in ast.walk(callee.node.args) if isinstance(a, ast.arg)}
                arg_names = {n.id for v in list(mapping.values()) + [p.value for p in pre] for n in ast.walk(v) if isinstance(n, ast.Name)}
                other = {n.id for st in body for n in ast.walk(st) if isinstance(n, ast.Name)} - {y}
                if y not in params and y in _stored_names(body) and into not in arg_names and into not in other and \
                        into not in rename.values() and into not in mapping:
                    rename = dict(rename)
                    rename[y] = into
        sub = _Subst(mapping, rename)
        new = [sub.visit(clone(st)) for st in body]
        for st in new:
            for x in ast.walk(st):
                x._inlined_from = callee.key
        return pre, new

    def _for_over_generator(self, st, t):
        """`for X in gen(args): BODY` with gen an unlisted simple generator -> gen's body with `X = <yielded>; BODY` where it yields.
        Accepted shapes of the generator: statements without yield / return, then either nothing more (all yields at the top level or under
        ifs; BODY may then not break / continue) or one last loop that holds every yield directly in its body or under ifs (a `return` there is
        a `break`; BODY's own `break` then leaves that loop, BODY's `continue` is accepted only where a yield ends an iteration)."""
        def loop_level(nodes, kinds):
            # statements of `kinds` that belong to the loop level of `nodes` (not inside nested loops / functions)
            out = []
            stack = list(nodes)
            while stack:
                n = stack.pop()
                if isinstance(n, kinds):
                    out.append(n)
                if isinstance(n, (ast.For, ast.AsyncFor, ast.While) + _FUNC + (ast.Lambda, ast.ClassDef)):
                    continue
                stack.extend(ast.iter_child_nodes(n))
            return out

        def has_yield_or_return(n):
            return any(isinstance(x, (ast.Yield, ast.Return)) for x in ast.walk(n))

        pre, body = self._body(t, st.iter, self._names | {z.id for z in ast.walk(st) if isinstance(z, ast.Name)})
        if not body:
            return None
        consumer_breaks = loop_level(st.body, (ast.Break,))
        consumer_continues = loop_level(st.body, (ast.Continue,))
        last = body[-1]
        head = body[:-1]
        if isinstance(last, (ast.For, ast.While)) and not last.orelse and has_yield_or_return(last) and not any(has_yield_or_return(h) for h in head):
            inner = last.body
            # yields / returns only at the loop level of that loop
            deep = [x for x in ast.walk(last) if isinstance(x, (ast.Yield, ast.Return))]
            lvl = loop_level(inner, (ast.Return,)) + [y.value for y in loop_level(inner, (ast.Expr,)) if isinstance(y.value, ast.Yield)]
            if len(deep) != len(lvl):
                return None
            if isinstance(last, ast.For) and has_yield_or_return(last.iter) or isinstance(last, ast.While) and has_yield_or_return(last.test):
                return None
            if consumer_continues:
                # a yield must be the last thing of an iteration wherever it stands
                def ends_iteration(block):
                    for i, s_ in enumerate(block):
                        if isinstance(s_, ast.Expr) and isinstance(s_.value, ast.Yield) and i != len(block) - 1:
                            return False
                        if isinstance(s_, ast.If):
                            if (has_yield_or_return(s_) and any(isinstance(x, ast.Yield) for x in ast.walk(s_))) and i != len(block) - 1:
                                return False
                            if not ends_iteration(s_.body) or not ends_iteration(s_.orelse):
                                return False
                    return True
                if not ends_iteration(inner):
                    return None
            ret_to = ast.Break
        else:
            if any(isinstance(x, ast.Return) for b in body for x in ast.walk(b)) or consumer_breaks or consumer_continues:
                return None
            if any(isinstance(x, ast.Yield) for b in body for x in ast.walk(b) if isinstance(b, (ast.For, ast.While, ast.Try, ast.With))):
                return None
            ret_to = None
        target, cbody = st.target, st.body

        class Y(ast.NodeTransformer):
            def visit_Expr(self, node):
                if isinstance(node.value, ast.Yield):
                    asg = ast.copy_location(ast.Assign(targets=[clone(target)], value=node.value.value), node)
                    return [asg] + [clone(b) for b in cbody]
                return node

            def visit_Return(self, node):
                return ast.copy_location(ret_to(), node) if ret_to is not None else node

            def visit_FunctionDef(self, node):
                return node
            visit_AsyncFunctionDef = visit_Lambda = visit_FunctionDef
        new = []
        for b in body:
            r = Y().visit(b)
            new.extend(r if isinstance(r, list) else [r])
        for z in new:
            ast.fix_missing_locations(z)
        return pre + new

    # -- resolution ------------------------------------------------------------------------------------------------
    def target(self, caller, call, awaited, generator=False):
        r = self.repo.resolve_call(caller, call)
        if r is None or not hasattr(r, "key") or r.key not in self.unknown:
            return None
        if is_simple_generator(r.node) != generator:
            return None
        g = _leading_globals(r.node)
        if g:
            # the helper assigns module-level names: the same names must be module-level names in the caller (same module, declared global there)
            if r.module is not caller.module or isinstance(caller.node, ast.Lambda):
                return None
            cg = set()
            for x in _own_nodes(caller.node):
                if isinstance(x, ast.Global):
                    cg |= set(x.names)
            if not g <= cg:
                # a caller that only reads those names (no local of that name: no store, no parameter, no comprehension / for target)
                # already means the module-level ones; declaring them global there changes nothing and makes the expansion possible
                missing = g - cg
                bound = {a.arg for a in ast.walk(caller.node.args) if isinstance(a, ast.arg)}
                for x in _own_nodes(caller.node):
                    if isinstance(x, ast.Name) and isinstance(x.ctx, (ast.Store, ast.Del)):
                        bound.add(x.id)
                    elif isinstance(x, (ast.FunctionDef, ast.AsyncFunctionDef, ast.ClassDef)) and x is not caller.node:
                        bound.add(x.name)
                    elif isinstance(x, ast.ExceptHandler) and x.name:
                        bound.add(x.name)
                    elif isinstance(x, (ast.Import, ast.ImportFrom)):
                        bound |= {(a.asname or a.name).split(".")[0] for a in x.names}
                if missing & bound or not isinstance(caller.node, (ast.FunctionDef, ast.AsyncFunctionDef)):
                    return None
                body = caller.node.body
                at = 1 if body and isinstance(body[0], ast.Expr) and isinstance(body[0].value, ast.Constant) and isinstance(body[0].value.value, str) else 0
                decl = ast.Global(names=sorted(missing))
                ast.copy_location(decl, body[at] if at < len(body) else caller.node)
                body.insert(at, decl)
        if r.module is not caller.module and self._foreign_names(r, caller) is None:
            return None
        if r.is_async != awaited:
            return None
        if r.node is caller.node:
            return None
        return r

    def _foreign_names(self, r, caller):
        """A helper that lives in another module can be expanded when every global name its body uses means the same thing in the caller's
        module: imported there under the same name from the same place, or not in use there at all (then the import is added).
        -> {local name: dotted target} to import, or None."""
        import builtins
        if r.outer is not None:
            return None
        if r.cls is not None and any((isinstance(x, ast.Attribute) and x.attr.startswith("__") and not x.attr.endswith("__")) or
                                     (isinstance(x, ast.Name) and x.id in ("__class__", "super")) for x in ast.walk(r.node)):
            return None     # class-private names are mangled with the name of the class they are written in
        key = (r.key, caller.module.rel)
        if key in self._foreign_memo:
            return self._foreign_memo[key]
        src, dst = r.module, caller.module
        local = _stored_names(r.node.body) | {a.arg for a in ast.walk(r.node) if isinstance(a, ast.arg)} | _comp_names(r.node.body)   # (lambda parameters too)
        need = {}
        respell = {}
        ok = True
        for x in ast.walk(r.node):
            if not (isinstance(x, ast.Name) and isinstance(x.ctx, ast.Load)) or x.id in local:
                continue
            nm = x.id
            if nm in src.imports:
                tgt = src.imports[nm]
            elif nm in src.functions or nm in src.classes or nm in src.globals:
                tgt = src.rel[:-3].replace("/", ".").removesuffix(".__init__") + "." + nm
            elif hasattr(builtins, nm):
                if nm in dst.imports or nm in dst.functions or nm in dst.classes or nm in dst.globals:
                    ok = False
                continue
            else:
                ok = False
                continue
            cur = dst.imports.get(nm)
            if cur == tgt:
                continue
            if nm not in src.imports:
                src_dotted = tgt.rsplit(".", 1)[0]
                alias = next((l for l, t_ in sorted(dst.imports.items()) if t_ == src_dotted), None)
                if alias is not None:
                    respell[nm] = alias
                    continue
            if cur is None and nm not in dst.functions and nm not in dst.classes and nm not in dst.globals and \
                    not any(isinstance(y, ast.Name) and y.id == nm and isinstance(y.ctx, ast.Store) for y in ast.walk(dst.tree)):
                need[nm] = tgt
            else:
                ok = False
        res = need if ok else None
        self._foreign_memo[key] = res
        if ok and respell:
            self._respell[key] = respell
        if res:
            self.imports_needed.setdefault(dst.rel, {}).update(res)
        return res

    @staticmethod
    def _call_of(value):
        """(call, awaited) when `value` is `f(..)` or `await f(..)`."""
        if isinstance(value, ast.Await) and isinstance(value.value, ast.Call):
            return value.value, True
        if isinstance(value, ast.Call):
            return value, False
        return None, False

    # -- statement rewriting ---------------------------------------------------------------------------------------
    def expand_function(self, fi):
        """Expand unknown helpers in the body of fi (in place).  Returns number of expansions."""
        names = {x.id for x in ast.walk(fi.node) if isinstance(x, ast.Name)} | {a.arg for a in ast.walk(fi.node) if isinstance(a, ast.arg)}
        self._names = names
        self._caller = fi
        before = len(self.log)
        fi.node.body = self._block(fi.node.body)
        return len(self.log) - before

    def _block(self, stmts):
        out = []
        for st in stmts:
            out.extend(self._stmt(st))
        return out

    def _note(self, callee, mode):
        self.log.append((self._caller.key, callee.key, mode))

    def _stmt(self, st):
        caller = self._caller
        # 1. whole-statement forms
        try:
            if isinstance(st, ast.Return) and st.value is not None:
                call, aw = self._call_of(st.value)
                t = call is not None and self.target(caller, call, aw)
                if t:
                    pre, body = self._body(t, call, self._names)
                    self._grow(pre + body)
                    self._note(t, "tail")
                    res = pre + body
                    if not self._always_returns(body):
                        res.append(ast.copy_location(ast.Return(value=None), st))
                    return self._block(res)
            if isinstance(st, ast.Expr) and isinstance(st.value, ast.Call) and isinstance(st.value.func, ast.Attribute) and st.value.func.attr == "extend" and \
                    len(st.value.args) == 1 and not st.value.keywords and isinstance(st.value.args[0], ast.Call) and _simple(st.value.func.value):
                # <list>.extend(gen(...)) with gen an unlisted simple generator: its body, appending where it yields
                gcall = st.value.args[0]
                t = self.target(caller, gcall, False, generator=True)
                if t:
                    pre, body = self._body(t, gcall, self._names)
                    recv = st.value.func.value

                    class Y(ast.NodeTransformer):
                        def visit_Expr(self, node):
                            if isinstance(node.value, ast.Yield):
                                return ast.copy_location(ast.Expr(value=ast.Call(func=ast.Attribute(value=clone(recv), attr="append", ctx=ast.Load()),
                                                                                 args=[node.value.value], keywords=[])), node)
                            return node

                        def visit_FunctionDef(self, node):
                            return node
                        visit_AsyncFunctionDef = visit_Lambda = visit_FunctionDef
                    body = [Y().visit(b) for b in body]
                    new, _ = _eliminate(body, lambda v, at: [], True)
                    self._grow(pre + new)
                    self._note(t, "extend")
                    return self._block(pre + new) or [ast.copy_location(ast.Pass(), st)]
            if isinstance(st, ast.Assign) and len(st.targets) == 1 and isinstance(st.targets[0], ast.Name) and isinstance(st.value, ast.ListComp) and \
                    len(st.value.generators) == 1 and not st.value.generators[0].is_async and isinstance(st.value.generators[0].iter, ast.Call) and \
                    self.target(caller, st.value.generators[0].iter, False, generator=True):
                # x = [E for v in gen(...) if c]  with gen an unlisted simple generator  ->  x = []; for v in gen(...): if c: x.append(E)
                g0 = st.value.generators[0]
                x = st.targets[0].id
                if not any(isinstance(z, ast.Name) and z.id == x for z in ast.walk(st.value)):
                    self.counter += 1
                    ren = {}
                    for z in ast.walk(g0.target):
                        if isinstance(z, ast.Name) and z.id in self._names:
                            ren[z.id] = "%s__cmp%d" % (z.id, self.counter)
                            self._names.add(ren[z.id])
                    sub = _Subst({}, ren)
                    tgt = sub.visit(clone(g0.target))
                    for z in ast.walk(tgt):
                        if isinstance(z, ast.Name):
                            z.ctx = ast.Store()
                    inner = [ast.Expr(value=ast.Call(func=ast.Attribute(value=ast.Name(id=x, ctx=ast.Load()), attr="append", ctx=ast.Load()),
                                                     args=[sub.visit(clone(st.value.elt))], keywords=[]))]
                    for c_ in reversed(g0.ifs):
                        inner = [ast.If(test=sub.visit(clone(c_)), body=inner, orelse=[])]
                    loop = ast.For(target=tgt, iter=g0.iter, body=inner, orelse=[], type_comment=None)
                    init = ast.Assign(targets=[ast.Name(id=x, ctx=ast.Store())], value=ast.List(elts=[], ctx=ast.Load()))
                    for z in (init, loop):
                        ast.copy_location(z, st)
                        ast.fix_missing_locations(z)
                    return self._block([init, loop])
            if isinstance(st, ast.For) and not st.orelse and isinstance(st.iter, ast.Call):
                t = self.target(caller, st.iter, False, generator=True)
                if t:
                    new = self._for_over_generator(st, t)
                    if new is not None:
                        self._grow(new)
                        self._note(t, "for")
                        return self._block(new)
            if isinstance(st, ast.Expr):
                call, aw = self._call_of(st.value)
                t = call is not None and self.target(caller, call, aw)
                if t:
                    pre, body = self._body(t, call, self._names)

                    def k(v, at):
                        if v is None or _effect_free(v):
                            return []
                        return [ast.copy_location(ast.Expr(value=v), at)]
                    new, _ = _eliminate(body, k, True)
                    self._grow(pre + new)
                    self._note(t, "stmt")
                    return self._block(pre + new) or [ast.copy_location(ast.Pass(), st)]
            if isinstance(st, (ast.Assign, ast.AnnAssign)) and st.value is not None:
                call, aw = self._call_of(st.value)
                t = call is not None and self.target(caller, call, aw)
                if t:
                    into = st.targets[0].id if isinstance(st, ast.Assign) and len(st.targets) == 1 and isinstance(st.targets[0], ast.Name) else None
                    pre, body = self._body(t, call, self._names, into=into)

                    def k(v, at, st=st, into=into):
                        if into is not None and isinstance(v, ast.Name) and v.id == into:
                            return []  # x = x
                        new = copy.copy(st)
                        new.value = v if v is not None else ast.Constant(value=None)
                        if isinstance(new, ast.Assign):
                            new.targets = clone(st.targets)
                        else:
                            new.target = clone(st.target)
                        return [ast.copy_location(new, at)]
                    new, always = _eliminate(body, k, True)
                    if not always:
                        raise NotInlinable("some path falls off the end while others return a value")
                    self._grow(pre + new)
                    self._note(t, "assign")
                    return self._block(pre + new)
        except NotInlinable:
            pass
        # 2. calls nested in the statement's own expressions
        hoisted = []
        for field, expr in self._header_exprs(st):
            new_expr = self._rewrite_expr(st, field, expr, hoisted)
            if new_expr is not expr:
                self._set_header(st, field, new_expr)
        # 3. compound bodies
        for name in ("body", "orelse", "finalbody"):
            if isinstance(getattr(st, name, None), list) and not isinstance(st, _FUNC + (ast.ClassDef,)):
                setattr(st, name, self._block(getattr(st, name)))
        if isinstance(st, ast.Try):
            for h in st.handlers:
                h.body = self._block(h.body)
        if isinstance(st, ast.Match):
            for c in st.cases:
                c.body = self._block(c.body)
        if isinstance(st, _FUNC):
            st.body = self._block(st.body)
        if hoisted:
            return self._block(hoisted) + [st]
        return [st]

    @staticmethod
    def _always_returns(stmts):
        if not stmts:
            return False
        last = stmts[-1]
        if isinstance(last, (ast.Return, ast.Raise)):
            return True
        if isinstance(last, ast.If):
            return Expander._always_returns(last.body) and Expander._always_returns(last.orelse)
        if isinstance(last, (ast.With, ast.AsyncWith)):
            return Expander._always_returns(last.body)
        if isinstance(last, ast.Try):
            return Expander._always_returns(last.body) and all(Expander._always_returns(h.body) for h in last.handlers)
        return False

    def _grow(self, stmts):
        for s in stmts:
            for x in ast.walk(s):
                if isinstance(x, ast.Name):
                    self._names.add(x.id)

    @staticmethod
    def _header_exprs(st):
        if isinstance(st, (ast.Return, ast.Expr)):
            return [("value", st.value)] if st.value is not None else []
        if isinstance(st, ast.Assign):
            return [("value", st.value)] + [("targets:%d" % i, t) for i, t in enumerate(st.targets) if not isinstance(t, ast.Name)]
        if isinstance(st, ast.AugAssign):
            return [("value", st.value)]
        if isinstance(st, ast.AnnAssign):
            return [("value", st.value)] if st.value is not None else []
        if isinstance(st, (ast.If, ast.While)):
            return [("test", st.test)]
        if isinstance(st, (ast.For, ast.AsyncFor)):
            return [("iter", st.iter)]
        if isinstance(st, (ast.With, ast.AsyncWith)):
            return [("items:%d" % i, it.context_expr) for i, it in enumerate(st.items)]
        if isinstance(st, ast.Raise):
            return [("exc", st.exc)] if st.exc is not None else []
        if isinstance(st, ast.Assert):
            return [("test", st.test)]
        if isinstance(st, ast.Delete):
            return [("targets:%d" % i, t) for i, t in enumerate(st.targets)]
        return []

    @staticmethod
    def _set_header(st, field, value):
        if ":" in field:
            name, i = field.split(":")
            i = int(i)
            if name == "items":
                st.items[i].context_expr = value
            else:
                getattr(st, name)[i] = value
        else:
            setattr(st, field, value)

    def _rewrite_expr(self, st, field, expr, hoisted):
        caller = self._caller
        exp = self

        first_effect = [None]
        for x in self._eval_order(expr):
            if isinstance(x, (ast.Call, ast.Await)):
                first_effect[0] = x
                break

        class R(ast.NodeTransformer):
            def __init__(self):
                self.guarded = 0

            def visit_Lambda(self, node):
                return node

            def _guard(self, node):
                self.guarded += 1
                self.generic_visit(node)
                self.guarded -= 1
                return node

            visit_ListComp = visit_SetComp = visit_DictComp = visit_GeneratorExp = _guard
            visit_IfExp = _guard

            def visit_BoolOp(self, node):
                # the first operand is always evaluated
                node.values[0] = self.visit(node.values[0])
                self.guarded += 1
                node.values[1:] = [self.visit(v) for v in node.values[1:]]
                self.guarded -= 1
                return node

            def visit_Await(self, node):
                if isinstance(node.value, ast.Call):
                    r = self._try(node, node.value, True)
                    if r is not None:
                        return r
                self.generic_visit(node)
                return node

            def visit_Call(self, node):
                # list(gen(...)) with gen an unlisted simple generator, evaluated before anything else of the statement:
                #   tmp = [v for v in gen(...)]   (which is then taken apart like any comprehension over such a generator)
                if isinstance(node.func, ast.Name) and node.func.id == "list" and len(node.args) == 1 and not node.keywords and isinstance(node.args[0], ast.Call) \
                        and self.guarded == 0 and first_effect[0] is node.args[0] and not field.startswith("targets") \
                        and isinstance(st, (ast.If, ast.Return, ast.Assign, ast.AnnAssign, ast.Expr, ast.AugAssign, ast.Raise, ast.Assert)) \
                        and exp.target(caller, node.args[0], False, generator=True):
                    exp.counter += 1
                    tmp = "collected__inl%d" % exp.counter
                    var = "item__inl%d" % exp.counter
                    exp._names.update((tmp, var))
                    comp = ast.ListComp(elt=ast.Name(id=var, ctx=ast.Load()),
                                        generators=[ast.comprehension(target=ast.Name(id=var, ctx=ast.Store()), iter=node.args[0], ifs=[], is_async=0)])
                    asg = ast.copy_location(ast.Assign(targets=[ast.Name(id=tmp, ctx=ast.Store())], value=comp), st)
                    ast.fix_missing_locations(asg)
                    hoisted.append(asg)
                    return ast.copy_location(ast.Name(id=tmp, ctx=ast.Load()), node)
                r = self._try(node, node, False)
                if r is not None:
                    return r
                self.generic_visit(node)
                return node

            def _try(self, whole, call, awaited):
                t = exp.target(caller, call, awaited)
                if not t:
                    return None
                body = _docless(t.node.body)
                try:
                    if len(body) == 1 and isinstance(body[0], ast.Return) and body[0].value is not None:
                        mapping, pre, rename, _ = exp._bind(t, call, exp._names)
                        if not pre:
                            e = _Subst(mapping, rename).visit(clone(body[0].value))
                            for x in ast.walk(e):
                                x._inlined_from = t.key
                            exp._note(t, "expr")
                            e = ast.copy_location(e, whole)
                            ast.fix_missing_locations(e)
                            return self.visit(e)
                    # hoist into a temporary when nothing observable is evaluated before the call
                    if self.guarded == 0 and exp._first_effect_within(expr, whole) and isinstance(st, (ast.If, ast.Return, ast.Assign, ast.AnnAssign, ast.Expr, ast.AugAssign, ast.Raise, ast.Assert)) \
                            and not field.startswith("targets") \
                            and not (isinstance(st, ast.Assign) and len(st.targets) == 1 and isinstance(st.targets[0], ast.Name) and st.value is whole):
                        # (`t = f(..)` itself is the hoisted form: if it could not be expanded as a statement, hoisting it again would not end)
                        exp.counter += 1
                        tmp = "%s_result__inl%d" % (t.name.lstrip("_"), exp.counter)
                        exp._names.add(tmp)
                        asg = ast.copy_location(ast.Assign(targets=[ast.Name(id=tmp, ctx=ast.Store())], value=whole), st)
                        ast.fix_missing_locations(asg)
                        hoisted.append(asg)
                        return ast.copy_location(ast.Name(id=tmp, ctx=ast.Load()), whole)
                except NotInlinable:
                    return None
                return None

        return R().visit(expr)

    def _first_effect_within(self, expr, whole):
        """Everything observable that is evaluated before the call `whole` completes belongs to `whole` itself (its own arguments)."""
        inside = {id(x) for x in ast.walk(whole)}
        for x in self._eval_order(expr):
            if isinstance(x, (ast.Call, ast.Await)):
                if x is whole:
                    return True
                if id(x) not in inside:
                    return False
        return False

    @staticmethod
    def _eval_order(expr):
        """Approximate evaluation order: post-order for calls (arguments before the call itself)."""
        def rec(n):
            if isinstance(n, ast.Await):
                if isinstance(n.value, ast.Call):
                    yield from rec_call(n.value, n)
                    return
            if isinstance(n, ast.Call):
                yield from rec_call(n, n)
                return
            for c in ast.iter_child_nodes(n):
                yield from rec(c)
            if isinstance(n, ast.Await):
                yield n

        def rec_call(call, whole):
            for c in ast.iter_child_nodes(call):
                yield from rec(c)
            yield whole
        yield from rec(expr)


# ---------------------------------------------------------------------------------------------------------------------
# unknown constants


def _const_ok(node, depth=0):
    if depth > 4:
        return False
    if isinstance(node, ast.Constant):
        return True
    if isinstance(node, ast.UnaryOp) and isinstance(node.operand, ast.Constant):
        return True
    if isinstance(node, (ast.Tuple, ast.List, ast.Set)):
        return all(_const_ok(e, depth + 1) for e in node.elts)
    if isinstance(node, ast.Dict):
        return all(k is not None and _const_ok(k, depth + 1) and _const_ok(v, depth + 1) for k, v in zip(node.keys, node.values))
    # pure expressions over other module-level names (an imported constant, another constant of this module)
    if isinstance(node, (ast.Name, ast.Attribute)):
        d = dotted(node)
        return d is not None and d.split(".")[0] not in ("self", "cls")
    if isinstance(node, ast.BinOp):
        return _const_ok(node.left, depth + 1) and _const_ok(node.right, depth + 1)
    if isinstance(node, ast.UnaryOp):
        return _const_ok(node.operand, depth + 1)
    if isinstance(node, ast.Call) and isinstance(node.func, ast.Name) and node.func.id in ("frozenset", "tuple", "set", "list", "dict", "len", "int", "bytes", "str", "max", "min") and \
            not node.keywords and len(node.args) <= 2:
        return all(_const_ok(a, depth + 1) for a in node.args)
    return False


_MUTATORS = {"append", "extend", "insert", "pop", "remove", "clear", "update", "setdefault", "popitem", "add", "discard", "sort", "reverse"}


def _mutated(tree, name):
    for x in ast.walk(tree):
        if isinstance(x, ast.Subscript) and isinstance(x.ctx, (ast.Store, ast.Del)) and isinstance(x.value, ast.Name) and x.value.id == name:
            return True
        if isinstance(x, ast.Call) and isinstance(x.func, ast.Attribute) and x.func.attr in _MUTATORS and \
                isinstance(x.func.value, ast.Name) and x.func.value.id == name:
            return True
        if isinstance(x, ast.AugAssign) and isinstance(x.target, ast.Name) and x.target.id == name:
            return True
        if isinstance(x, ast.Global) and name in x.names:
            return True
    return False


_PURE_CONSUMERS = {"len", "sorted", "tuple", "frozenset", "set", "list", "dict", "sum", "min", "max", "any", "all", "enumerate", "zip", "iter", "reversed", "isinstance"}
_READ_METHODS = {"get", "keys", "items", "values", "index", "count", "copy", "union", "intersection", "issubset", "issuperset", "join", "format", "startswith", "endswith", "lower", "upper"}


def _param_read_only(g, pname):
    """The callee only reads its parameter: iterates it, indexes it, tests membership, takes its length."""
    parents = {}
    for n in ast.walk(g.node):
        for c in ast.iter_child_nodes(n):
            parents[c] = n
    for n in ast.walk(g.node):
        if isinstance(n, ast.Name) and n.id == pname:
            if not isinstance(n.ctx, ast.Load):
                return False
            p = parents.get(n)
            if isinstance(p, ast.Subscript) and p.value is n and isinstance(p.ctx, ast.Load):
                continue
            if isinstance(p, ast.Compare) and n in p.comparators:
                continue
            if isinstance(p, (ast.For, ast.AsyncFor, ast.comprehension)) and p.iter is n:
                continue
            if isinstance(p, ast.Call) and isinstance(p.func, ast.Name) and p.func.id in _PURE_CONSUMERS and n in p.args:
                continue
            if isinstance(p, ast.Attribute) and p.value is n and p.attr in _READ_METHODS and isinstance(parents.get(p), ast.Call) and parents[p].func is p:
                continue
            return False
    return True


def _escapes(tree, name, repo=None, module=None):
    """Can the object bound to module-level `name` be reached through another reference (stored, returned, passed on)?
    A mutable display may only be propagated into its uses when it cannot: otherwise two users that share ONE object
    would each be given a fresh copy and an aliasing defect would disappear from the analysed program."""
    parents = {}
    for n in ast.walk(tree):
        for c in ast.iter_child_nodes(n):
            parents[c] = n
    for n in ast.walk(tree):
        if not (isinstance(n, ast.Name) and n.id == name and isinstance(n.ctx, ast.Load)):
            continue
        p = parents.get(n)
        if isinstance(p, ast.Subscript) and p.value is n and isinstance(p.ctx, ast.Load):
            # a nested mutable element could still escape; accept only when the element is consumed in place
            continue
        if isinstance(p, ast.Compare) and n in p.comparators:
            continue
        if isinstance(p, (ast.For, ast.AsyncFor, ast.comprehension)) and p.iter is n:
            continue
        if isinstance(p, ast.Call) and isinstance(p.func, ast.Name) and p.func.id in _PURE_CONSUMERS and n in p.args:
            continue
        if isinstance(p, ast.Attribute) and p.value is n and p.attr in _READ_METHODS and isinstance(parents.get(p), ast.Call) and parents[p].func is p:
            continue
        if isinstance(p, ast.Starred):
            continue
        if isinstance(p, ast.Call) and n in p.args and repo is not None and module is not None:
            # handed to a project function that only reads the corresponding parameter
            g = None
            try:
                r = repo.resolve_dotted(module, dotted(p.func) or "")
                g = r[1] if r and r[0] == "func" else None
            except Exception:
                g = None
            if g is not None:
                params = list(g.params)
                if g.cls is not None and params and params[0] in ("self", "cls") and not any("staticmethod" in d for d in g.decorators):
                    params = params[1:]
                i = p.args.index(n)
                if i < len(params) and _param_read_only(g, params[i]):
                    continue
        return True
    return False


def unknown_constants(repo, known):
    """module rel -> {name: value node} for module-level constants the table does not list."""
    out = {}
    for rel, m in repo.modules.items():
        kg = set(known["globals"].get(rel, ()))
        if rel not in known["globals"]:
            continue  # a whole new module: nothing refers to it in the rules
        cands = {}
        counts = {}
        for st in m.tree.body:
            if isinstance(st, ast.Assign):
                for t in st.targets:
                    for n in ast.walk(t):
                        if isinstance(n, ast.Name):
                            counts[n.id] = counts.get(n.id, 0) + 1
            elif isinstance(st, (ast.AnnAssign, ast.AugAssign)) and isinstance(st.target, ast.Name):
                counts[st.target.id] = counts.get(st.target.id, 0) + 1
        for nm, v in m.globals.items():
            if nm in kg or counts.get(nm, 0) != 1 or not _const_ok(v):
                continue
            immutable = isinstance(v, (ast.Constant, ast.Tuple, ast.Name, ast.Attribute, ast.BinOp, ast.UnaryOp)) or (isinstance(v, ast.Call) and getattr(v.func, 'id', '') in ('frozenset', 'tuple', 'len', 'int', 'bytes', 'str', 'max', 'min'))
            if not immutable and (_mutated(m.tree, nm) or any(_escapes(m2.tree, nm, repo=repo, module=m2) for m2 in repo.modules.values() if m2 is m or nm in m2.imports)):
                continue
            cands[nm] = v
        if cands:
            out[rel] = cands
    return out


class _ConstSubst(ast.NodeTransformer):
    """Replace loads of unknown module constants (same module, not shadowed by a local)."""

    def __init__(self, consts, repo, module, foreign):
        self.consts = consts
        self.repo = repo
        self.module = module
        self.foreign = foreign  # rel -> consts of other modules
        self.shadow = [set()]
        self.count = 0
        self.depth = 0

    def _fn(self, node):
        local = _stored_names(node.body) | {a.arg for a in ast.walk(node.args) if isinstance(a, ast.arg)}
        self.shadow.append(local)
        self.generic_visit(node)
        self.shadow.pop()
        return node

    visit_FunctionDef = visit_AsyncFunctionDef = _fn

    def visit_Name(self, node):
        if isinstance(node.ctx, ast.Load) and not any(node.id in s for s in self.shadow):
            if node.id in self.consts and self.depth < 6:
                self.count += 1
                self.depth += 1
                try:
                    return ast.copy_location(self.visit(clone(self.consts[node.id])), node)
                finally:
                    self.depth -= 1
            tgt = self.module.imports.get(node.id)
            if tgt and self.foreign:
                r = self.repo._resolve_abs(tgt)
                if r and r[0] == "global":
                    m, nm = r[1]
                    if nm in self.foreign.get(m.rel, {}):
                        self.count += 1
                        return ast.copy_location(clone(self.foreign[m.rel][nm]), node)
        return node

    def visit_Attribute(self, node):
        if isinstance(node.ctx, ast.Load):
            d = dotted(node)
            if d is not None and d.split(".")[0] not in set().union(*self.shadow):
                r = self.repo.resolve_dotted(self.module, d)
                if r and r[0] == "global":
                    m, nm = r[1]
                    if m is not self.module and nm in self.foreign.get(m.rel, {}):
                        self.count += 1
                        return ast.copy_location(clone(self.foreign[m.rel][nm]), node)
        self.generic_visit(node)
        return node


def _class_constants(repo, known):
    """(rel, class) -> {attr: value} for class-level constants the table does not list and nobody assigns through self."""
    out = {}
    for rel, m in repo.modules.items():
        for cn, ci in m.classes.items():
            ka = known["class_attrs"].get("%s::%s" % (rel, cn))
            if ka is None:
                continue
            ka = set(ka)
            cands = {}
            for nm, v in ci.attrs.items():
                if nm in ka or not _const_ok(v):
                    continue
                assigned = any(isinstance(x, ast.Attribute) and x.attr == nm and isinstance(x.ctx, (ast.Store, ast.Del)) for x in ast.walk(m.tree))
                n_defs = sum(1 for s in ci.node.body if isinstance(s, (ast.Assign, ast.AnnAssign)) and any(
                    isinstance(y, ast.Name) and y.id == nm and isinstance(y.ctx, ast.Store) for y in ast.walk(s)))
                if assigned or n_defs != 1:
                    continue
                if not isinstance(v, ast.Constant) and any(
                        isinstance(x, ast.Call) and isinstance(x.func, ast.Attribute) and x.func.attr in _MUTATORS and
                        isinstance(x.func.value, ast.Attribute) and x.func.value.attr == nm for x in ast.walk(m.tree)):
                    continue
                cands[nm] = v
            if cands:
                # a class constant may be defined in terms of an earlier one (bare name in the class body): resolve those first
                for _ in range(4):
                    changed_ = False
                    for nm in list(cands):
                        v = cands[nm]
                        if any(isinstance(x, ast.Name) and x.id in cands and x.id != nm and isinstance(x.ctx, ast.Load) for x in ast.walk(v)):
                            cands[nm] = _SubstName({k: w for k, w in cands.items() if k != nm}).visit(clone(v))
                            changed_ = True
                    if not changed_:
                        break
                out[(rel, cn)] = cands
    return out


class _ClassConstSubst(ast.NodeTransformer):
    def __init__(self, cls_name, consts):
        self.cls_name = cls_name
        self.consts = consts
        self.count = 0

    def visit_Attribute(self, node):
        if isinstance(node.ctx, ast.Load) and node.attr in self.consts and isinstance(node.value, ast.Name) and \
                node.value.id in ("self", "cls", self.cls_name):
            self.count += 1
            return ast.copy_location(clone(self.consts[node.attr]), node)
        self.generic_visit(node)
        return node


# ---------------------------------------------------------------------------------------------------------------------
# driver


def _recursive(repo, unknown):
    """Keys of unknown functions on a call cycle among unknown functions."""
    edges = {}
    for key, fi in unknown.items():
        es = set()
        for x in _own_nodes(fi.node):
            if isinstance(x, ast.Call):
                r = repo.resolve_call(fi, x)
                if r is not None and hasattr(r, "key") and r.key in unknown:
                    es.add(r.key)
        edges[key] = es
    bad = set()
    for start in edges:
        seen, stack = set(), list(edges[start])
        while stack:
            k = stack.pop()
            if k == start:
                bad.add(start)
                break
            if k in seen:
                continue
            seen.add(k)
            stack.extend(edges.get(k, ()))
    return bad


def _ancestors_of(repo, ci, seen=None):
    seen = seen if seen is not None else set()
    if ci.key in seen:
        return seen
    seen.add(ci.key)
    for b in ci.bases:
        r = repo.resolve_dotted(ci.module, b)
        if r and r[0] == "class":
            _ancestors_of(repo, r[1], seen)
        elif not (r and r[0] == "class"):
            seen.add("?" + b)   # a base outside the repository
    return seen


def _unrelated_class(repo, m, node, cls):
    """`node` lies in a method of a class of module m whose hierarchy is fully inside the repository and disjoint from `cls`'s."""
    p = getattr(node, "_parent", None)
    while p is not None and not isinstance(p, ast.ClassDef):
        p = getattr(p, "_parent", None)
    if p is None:
        return False
    k = m.classes.get(p.name)
    if k is None or k.node is not p:
        return False
    if k is cls:
        return False
    a, b = _ancestors_of(repo, k), _ancestors_of(repo, cls)
    return cls.key not in a and k.key not in b


def _still_referenced(repo, fi):
    name = fi.name
    for m in repo.modules.values():
        for x in ast.walk(m.tree):
            if x is fi.node:
                continue
            if isinstance(x, ast.Name) and x.id == name and isinstance(x.ctx, ast.Load):
                return True
            if isinstance(x, ast.Attribute) and x.attr == name:
                if fi.cls is not None and isinstance(x.value, ast.Name) and x.value.id in ("self", "cls") and _unrelated_class(repo, m, x, fi.cls):
                    continue   # self.<name> inside a class that neither inherits from nor is inherited by the helper's class
                return True
            if isinstance(x, ast.ImportFrom) and any(a.name == name for a in x.names):
                return True
            if isinstance(x, ast.Constant) and x.value == name:
                return True
    return False


def _remove_def(tree, node):
    class R(ast.NodeTransformer):
        def generic_visit(self, n):
            for field in ("body", "orelse", "finalbody"):
                lst = getattr(n, field, None)
                if isinstance(lst, list) and any(x is node for x in lst):
                    new = [x for x in lst if x is not node]
                    setattr(n, field, new or ([ast.Pass()] if field == "body" else []))
            return super().generic_visit(n)
    R().visit(tree)


class _ImportForm(ast.NodeTransformer):
    """Spell references to imported objects the way the reference tree's import table of this module spells them."""

    def __init__(self, cur, pinned):
        self.cur, self.pinned = cur, pinned
        self.by_target = {}
        for local, tgt in pinned.items():
            self.by_target.setdefault(tgt, local)
        self.shadow = [set()]
        self.count = 0
        self.needed = set()

    def _fn(self, node):
        local = _stored_names(node.body) - {a for a in _import_names(node.body)} | {a.arg for a in ast.walk(node.args) if isinstance(a, ast.arg)}
        self.shadow.append(local)
        self.generic_visit(node)
        self.shadow.pop()
        return node

    visit_FunctionDef = visit_AsyncFunctionDef = _fn

    def _rewrite(self, node):
        d = dotted(node)
        if d is None:
            return None
        parts = d.split(".")
        head = parts[0]
        if head not in self.cur or any(head in s for s in self.shadow):
            return None
        if head in self.pinned and self.pinned[head] == self.cur[head]:
            return None   # same binding as in the reference tree
        full = (self.cur[head] + ("." + ".".join(parts[1:]) if len(parts) > 1 else "")).split(".")
        for i in range(len(full), 0, -1):
            tgt = ".".join(full[:i])
            if tgt in self.by_target:
                local = self.by_target[tgt]
                new = ast.Name(id=local, ctx=ast.Load())
                for p in full[i:]:
                    new = ast.Attribute(value=new, attr=p, ctx=ast.Load())
                if isinstance(node, (ast.Name, ast.Attribute)):
                    new.ctx = node.ctx
                self.needed.add(local)
                self.count += 1
                return ast.copy_location(new, node)
        return None

    def visit_Attribute(self, node):
        if isinstance(node.ctx, ast.Load):
            r = self._rewrite(node)
            if r is not None:
                return r
        self.generic_visit(node)
        return node

    def visit_Name(self, node):
        if isinstance(node.ctx, ast.Load):
            r = self._rewrite(node)
            if r is not None:
                return r
        return node


def _import_names(stmts):
    out = set()
    for st in stmts:
        for x in ast.walk(st):
            if isinstance(x, (ast.Import, ast.ImportFrom)):
                for al in x.names:
                    out.add((al.asname or al.name).split(".")[0])
    return out


def import_normal_form(repo, known, rebuild):
    notes, changed = [], set()
    for rel, m in repo.modules.items():
        pinned = known.get("imports", {}).get(rel)
        if pinned is None:
            continue
        cur = dict(m.imports)
        if all(cur.get(k) == v for k, v in pinned.items()) and all(k in pinned for k in cur):
            continue
        tr = _ImportForm(cur, pinned)
        tr.visit(m.tree)
        if not tr.count:
            continue
        # make the reference spellings resolvable again
        new_imports = []
        for local in sorted(tr.needed):
            if m.imports.get(local) == pinned[local]:
                continue
            tgt = pinned[local]
            if "." in tgt:
                mod, last = tgt.rsplit(".", 1)
                new_imports.append(ast.ImportFrom(module=mod, names=[ast.alias(name=last, asname=local if local != last else None)], level=0))
            else:
                new_imports.append(ast.Import(names=[ast.alias(name=tgt, asname=local if local != tgt else None)]))
        pos = 1 if m.tree.body and isinstance(m.tree.body[0], ast.Expr) and isinstance(getattr(m.tree.body[0], "value", None), ast.Constant) else 0
        m.tree.body[pos:pos] = new_imports
        ast.fix_missing_locations(m.tree)
        changed.add(rel)
        notes.append("%d reference(s) in %s re-spelled through the reference import table (%s)" % (tr.count, rel, ", ".join(sorted(tr.needed))))
    if changed:
        rebuild(repo, changed)
    return notes


# ---------------------------------------------------------------------------------------------------------------------
# rename normal form


class _RenameIdent(ast.NodeTransformer):
    """Rename an identifier wherever it names a function / method / attribute (definitions, references, from-imports)."""

    def __init__(self, mapping, attrs_only=False):
        self.m, self.count, self.attrs_only = mapping, 0, attrs_only

    def visit_FunctionDef(self, node):
        self.generic_visit(node)
        if not self.attrs_only and node.name in self.m:
            node.name = self.m[node.name]
            self.count += 1
        return node
    visit_AsyncFunctionDef = visit_FunctionDef

    def visit_Name(self, node):
        if not self.attrs_only and node.id in self.m:
            node.id = self.m[node.id]
            self.count += 1
        return node

    def visit_Attribute(self, node):
        self.generic_visit(node)
        if node.attr in self.m:
            node.attr = self.m[node.attr]
            self.count += 1
        return node

    def visit_ImportFrom(self, node):
        if not self.attrs_only:
            for a in node.names:
                if a.name in self.m:
                    if a.asname is None or a.asname == a.name:
                        a.asname = None
                    a.name = self.m[a.name]
                    self.count += 1
        return node


def _ref_names(node):
    out = set()
    for x in ast.walk(node):
        if isinstance(x, ast.Name):
            out.add(x.id)
        elif isinstance(x, ast.Attribute):
            out.add(x.attr)
    return out


def rename_normal_form(repo, known, rebuild):
    """A function / method / instance attribute of the reference table that is gone while an unlisted one took its place
    (same scope, same arity, referenced by the functions that used to reference the old one; for attributes: stored by the
    same methods) is a renaming: it is spelled back.  Only unambiguous pairings are applied."""
    notes = []
    kf = set(known.get("functions", ()))
    refs, arity = known.get("refs", {}), known.get("arity", {})
    if not refs:
        return notes
    current = {}
    for m in repo.modules.values():
        for f in m.all_functions():
            current[f.key] = f

    def scope(key):
        rel, q = key.split("::")
        return rel, (q.rsplit(".", 1)[0] if "." in q else "")

    def short(key):
        return key.split("::")[1].split(".")[-1]
    missing = [k for k in sorted(kf) if k not in current and k.split("::")[0] in repo.modules]
    mapping = {}
    if missing:
        cur_refs = {k: _ref_names(f.node) for k, f in current.items()}
        all_names = set()
        for names in cur_refs.values():
            all_names |= names
        for m in repo.modules.values():
            all_names |= {n for n in _ref_names(m.tree)}
        by_scope = {}
        for k in missing:
            by_scope.setdefault(scope(k), []).append(k)
        votes = {}     # new short name -> {old short name: count}
        for sc, ks in sorted(by_scope.items()):
            rel, cq = sc
            if cq and ("%s::%s" % (rel, cq)) not in known.get("class_attrs", {}) and ("%s::%s" % (rel, cq)) not in kf:
                continue
            cands = [f for k, f in current.items() if scope(k) == sc and k not in kf]
            triples = []
            for K in ks:
                kname = short(K)
                rc = [c for c in refs.get(K, []) if c in current]
                # the old name must be out of use where it used to mean K: in K's own scope (class / module) and in the functions
                # that referred to K (a like-named method of an unrelated class elsewhere does not count)
                local_users = [k2 for k2 in current if scope(k2) == sc] + rc
                if any(kname in cur_refs[k2] for k2 in local_users) or (not cq and kname in all_names):
                    continue
                for U in cands:
                    if len(U.params) != arity.get(K, -1):
                        continue
                    hits = sum(1 for c in rc if U.name in cur_refs[c])
                    if rc and hits == 0:
                        continue
                    triples.append((hits, K, U))
            triples.sort(key=lambda t: (-t[0], t[1], t[2].key))
            usedK, usedU = set(), set()
            pending = []
            for i, (hits, K, U) in enumerate(triples):
                if K in usedK or U.key in usedU:
                    continue
                rivals = [t for t in triples if t is not triples[i] and t[0] == hits and (t[1] == K or t[2].key == U.key) and t[1] not in usedK and t[2].key not in usedU]
                if rivals:
                    pending.append((hits, K, U))
                    continue       # ambiguous so far
                usedK.add(K)
                usedU.add(U.key)
                votes.setdefault(U.name, {}).setdefault(short(K), 0)
                votes[U.name][short(K)] += 1
            # what the references cannot tell apart (several same-shaped helpers called from the same places) is told apart by position:
            # with as many vanished functions as new ones left in this scope, the k-th vanished one (in the reference's definition order)
            # is the k-th new one (in the current definition order) - provided that pairing is among the admissible ones
            restK = sorted({K for _h, K, _U in pending if K not in usedK}, key=lambda k_: known["functions"].index(k_) if k_ in known["functions"] else 0)
            restU = sorted({U.key: U for _h, _K, U in pending if U.key not in usedU}.values(), key=lambda u_: (u_.node.lineno, u_.node.col_offset))
            ref_pos = known.get("def_order", {})
            if restK and len(restK) == len(restU):
                restK.sort(key=lambda k_: ref_pos.get(k_, 0))
                admissible = {(K, U.key) for _h, K, U in pending}
                if all((K, U.key) in admissible for K, U in zip(restK, restU)):
                    for K, U in zip(restK, restU):
                        votes.setdefault(U.name, {}).setdefault(short(K), 0)
                        votes[U.name][short(K)] += 1
        for new, olds in votes.items():
            if len(olds) != 1:
                continue
            old = next(iter(olds))
            # every function now called `new` must be one of the paired ones (else the name means something else as well)
            n_named = sum(1 for f in current.values() if f.name == new)
            if n_named == olds[old] and old not in mapping.values():
                mapping[new] = old
    if mapping:
        changed = set()
        for rel, m in repo.modules.items():
            tr = _RenameIdent(mapping)
            tr.visit(m.tree)
            if tr.count:
                changed.add(rel)
        for rel in changed:
            ast.fix_missing_locations(repo.modules[rel].tree)
        rebuild(repo, changed)
        for new, old in sorted(mapping.items()):
            notes.append("function %s is the reference tree's %s under another name: spelled back" % (new, old))

    # ---- instance attributes
    inst = known.get("instance_attrs", {})
    ref_order = known.get("instance_attr_order", {})
    amap_votes = {}
    fn_names = {f.name for m in repo.modules.values() for f in m.all_functions()}
    all_attr_names = set()
    for m in repo.modules.values():
        all_attr_names |= _ref_names(m.tree)
    ref_attr_names = {a for v in inst.values() for a in v}

    def first_stores(ci):
        seq, seen = [], set()
        for fn in [x for x in ci.node.body if isinstance(x, _FUNC)]:
            for st in sorted([y for y in ast.walk(fn) if isinstance(y, ast.stmt)], key=lambda y: (y.lineno, y.col_offset)):
                tg = st.targets if isinstance(st, ast.Assign) else ([st.target] if isinstance(st, (ast.AnnAssign, ast.AugAssign)) else [])
                for t in tg:
                    for x in ast.walk(t):
                        if isinstance(x, ast.Attribute) and isinstance(x.ctx, ast.Store) and isinstance(x.value, ast.Name) and x.value.id == "self" and x.attr not in seen:
                            seen.add(x.attr)
                            v = getattr(st, "value", None)
                            seq.append([x.attr, fn.name, ast.unparse(v) if v is not None and t is x else ""])
        return seq
    for ck, ref_attrs in sorted(inst.items()):
        rel, cn = ck.split("::")
        m = repo.modules.get(rel)
        if m is None or cn not in m.classes:
            continue
        cur_seq = first_stores(m.classes[cn])
        cur = [a for a, _fn, _v in cur_seq]
        ref_seq = ref_order.get(ck) or [[a, "", ""] for a in ref_attrs]
        ci_ = m.classes[cn]

        def still_used(attr):
            """The old name is still in use for this class: anywhere in its module, or through a non-self receiver / a related class elsewhere."""
            for rel2, m2 in repo.modules.items():
                for x in ast.walk(m2.tree):
                    if isinstance(x, ast.Attribute) and x.attr == attr:
                        if rel2 == rel:
                            return True
                        if isinstance(x.value, ast.Name) and x.value.id in ("self", "cls") and _unrelated_class(repo, m2, x, ci_):
                            continue
                        return True
            return False
        gone = [e for e in ref_seq if e[0] not in cur and not still_used(e[0])]
        fresh = [e for e in cur_seq if e[0] not in ref_attrs and e[0] not in fn_names and e[0] not in ref_attr_names]
        if not gone or len(gone) != len(fresh):
            continue
        # k-th vanished attribute (in the order of first stores) <-> k-th new one; the stored values have to read the same
        # once the other pairings of this class are applied
        pairs = list(zip(gone, fresh))
        ren = {f[0]: g[0] for g, f in pairs}

        def norm_text(txt):
            try:
                t_ = ast.parse(txt, mode="eval")
            except SyntaxError:
                return txt
            for x in ast.walk(t_):
                if isinstance(x, ast.Attribute) and x.attr in ren:
                    x.attr = ren[x.attr]
                if isinstance(x, ast.Attribute) and x.attr in mapping:
                    x.attr = mapping[x.attr]
                if isinstance(x, ast.Name) and x.id in mapping:
                    x.id = mapping[x.id]
            return ast.unparse(t_)
        ok = True
        for g, f in pairs:
            if g[2] and f[2] and norm_text(f[2]) != g[2] and len(pairs) > 1:
                ok = False
        if ok:
            for g, f in pairs:
                amap_votes.setdefault(f[0], set()).add(g[0])
    amap = {k: next(iter(v)) for k, v in amap_votes.items() if len(v) == 1}
    if amap:
        changed = set()
        for rel, m in repo.modules.items():
            tr = _RenameIdent(amap, attrs_only=True)
            tr.visit(m.tree)
            if tr.count:
                changed.add(rel)
        for rel in changed:
            ast.fix_missing_locations(repo.modules[rel].tree)
        rebuild(repo, changed)
        for new, old in sorted(amap.items()):
            notes.append("instance attribute %s is the reference tree's %s under another name: spelled back" % (new, old))
    return notes


# ---------------------------------------------------------------------------------------------------------------------
# temporaries: `x = E` immediately followed by the statement holding the only use of x  ->  E written in place of x


_SIMPLE = (ast.Name, ast.Constant, ast.Attribute, ast.Load, ast.Store, ast.expr_context, ast.operator, ast.unaryop, ast.cmpop, ast.boolop,
           ast.UnaryOp, ast.BinOp, ast.Compare, ast.BoolOp, ast.Tuple, ast.List, ast.Set, ast.Dict, ast.JoinedStr, ast.FormattedValue, ast.Slice, ast.Subscript, ast.IfExp)


def _effect_free(e):
    """No call / await / yield / walrus inside: evaluating it earlier or later cannot be observed (barring exotic __getattr__)."""
    return all(isinstance(x, _SIMPLE) for x in ast.walk(e))


def _pure_enough(e):
    """Like _effect_free, but len(<name or attribute path>) may occur: by convention __len__ only reports."""
    for x in ast.walk(e):
        if isinstance(x, ast.Call):
            if not (isinstance(x.func, ast.Name) and x.func.id == "len" and len(x.args) == 1 and not x.keywords and dotted(x.args[0]) is not None):
                return False
        elif isinstance(x, (ast.Await, ast.Yield, ast.YieldFrom, ast.NamedExpr, ast.Lambda, ast.ListComp, ast.SetComp, ast.DictComp, ast.GeneratorExp)):
            return False
    return True


def _path_to(root, target):
    """[(ancestor, field, index)] from root down to target (identity), or None."""
    if root is target:
        return []
    for field, val in ast.iter_fields(root):
        if isinstance(val, ast.AST):
            p = _path_to(val, target)
            if p is not None:
                return [(root, field, None)] + p
        elif isinstance(val, list):
            for i, v in enumerate(val):
                if isinstance(v, ast.AST):
                    p = _path_to(v, target)
                    if p is not None:
                        return [(root, field, i)] + p
    return None


def _evaluated_before(path):
    """Sub-expressions evaluated before the path's end point, or None when the end point is evaluated conditionally /
    repeatedly / later (second operand of and/or, branch of a conditional expression, comprehension, lambda, ...)."""
    before = []
    for node, field, idx in path:
        if isinstance(node, (ast.Lambda, ast.ListComp, ast.SetComp, ast.DictComp, ast.GeneratorExp, ast.comprehension, ast.NamedExpr, ast.Starred)):
            return None
        if isinstance(node, ast.BoolOp):
            if idx != 0:
                return None
        elif isinstance(node, ast.IfExp):
            if field != "test":
                return None
        elif isinstance(node, ast.Compare):
            if field == "comparators":
                if idx != 0:
                    return None
                before.append(node.left)
        elif isinstance(node, ast.Call):
            if field == "args":
                before.append(node.func)
                before += node.args[:idx]
            elif field == "keywords":
                before.append(node.func)
                before += node.args
                before += [k.value for k in node.keywords[:idx]]
        elif isinstance(node, ast.keyword):
            pass
        elif isinstance(node, ast.BinOp):
            if field == "right":
                before.append(node.left)
        elif isinstance(node, ast.Subscript):
            if field == "slice":
                before.append(node.value)
        elif isinstance(node, ast.Slice):
            order = ["lower", "upper", "step"]
            before += [getattr(node, f) for f in order[:order.index(field)] if getattr(node, f) is not None]
        elif isinstance(node, (ast.Tuple, ast.List, ast.Set)):
            before += node.elts[:idx]
        elif isinstance(node, ast.Dict):
            if field == "keys":
                for k, v in list(zip(node.keys, node.values))[:idx]:
                    before += [x for x in (k, v) if x is not None]
            else:
                for k, v in list(zip(node.keys, node.values))[:idx]:
                    before += [x for x in (k, v) if x is not None]
                if node.keys[idx] is not None:
                    before.append(node.keys[idx])
        elif isinstance(node, ast.JoinedStr):
            before += node.values[:idx]
        elif isinstance(node, (ast.Attribute, ast.UnaryOp, ast.FormattedValue, ast.Await)):
            pass
        else:
            return None
    return before


def _header_exprs_of(st):
    """Expressions of a statement that are evaluated exactly once, first thing, when the statement is reached."""
    if isinstance(st, ast.Return):
        return [st.value] if st.value is not None else []
    if isinstance(st, ast.Expr):
        return [st.value]
    if isinstance(st, ast.Assign):
        return [st.value]
    if isinstance(st, ast.AnnAssign):
        return [st.value] if st.value is not None else []
    if isinstance(st, ast.AugAssign):
        return [st.value] if isinstance(st.target, ast.Name) else []
    if isinstance(st, ast.If):
        return [st.test]
    if isinstance(st, (ast.For, ast.AsyncFor)):
        return [st.iter]
    if isinstance(st, (ast.With, ast.AsyncWith)):
        return [st.items[0].context_expr] if st.items else []
    if isinstance(st, ast.Raise):
        return [st.exc] if st.exc is not None and st.cause is None else []
    if isinstance(st, ast.Assert):
        return [st.test] if st.msg is None else []
    return []


def _inline_temps_in_function(fnode):
    n_done = 0
    if not any(isinstance(x, ast.Assign) and len(x.targets) == 1 and isinstance(x.targets[0], ast.Name) for x in ast.walk(fnode)):
        return 0
    while True:
        loads, stores, other = {}, {}, set()
        for x in ast.walk(fnode):
            if isinstance(x, ast.Name):
                (loads if isinstance(x.ctx, ast.Load) else stores).setdefault(x.id, []).append(x)
            elif isinstance(x, (ast.Global, ast.Nonlocal)):
                other |= set(x.names)
            elif isinstance(x, ast.arg):
                other.add(x.arg)
            elif isinstance(x, ast.ExceptHandler) and x.name:
                other.add(x.name)
            elif isinstance(x, (ast.FunctionDef, ast.AsyncFunctionDef, ast.ClassDef)) and x is not fnode:
                other.add(x.name)
            elif isinstance(x, (ast.Import, ast.ImportFrom)):
                other |= {(a.asname or a.name).split(".")[0] for a in x.names}
        # candidates: a plain `x = E` whose next statement evaluates x exactly once, first thing
        cands = {}
        for holder in ast.walk(fnode):
            for field in ("body", "orelse", "finalbody"):
                lst = getattr(holder, field, None)
                if not (isinstance(lst, list) and lst and isinstance(lst[0], ast.stmt)) or isinstance(holder, ast.ClassDef):
                    continue
                for i in range(len(lst) - 1):
                    st, nxt = lst[i], lst[i + 1]
                    if not (isinstance(st, ast.Assign) and len(st.targets) == 1 and isinstance(st.targets[0], ast.Name)):
                        continue
                    x = st.targets[0].id
                    if x in other or any(isinstance(y, (ast.Yield, ast.YieldFrom)) for y in ast.walk(st.value)):
                        continue
                    if any(isinstance(y, ast.Name) and y.id == x for y in ast.walk(st.value)):
                        continue
                    uses = [(h, u) for h in _header_exprs_of(nxt) for u in ast.walk(h) if isinstance(u, ast.Name) and u.id == x and isinstance(u.ctx, ast.Load)]
                    if len(uses) != 1:
                        continue
                    h, use = uses[0]
                    path = _path_to(h, use)
                    before = _evaluated_before(path) if path is not None else None
                    if before is None or not (_effect_free(st.value) or all(_effect_free(b_) for b_ in before)):
                        continue
                    cands.setdefault(x, []).append((lst, i, st, nxt, use, path))
        todos = []
        for x, cs in cands.items():
            # every store of x is such a temporary and every load of x is the use right after one of them
            if len(cs) == len(stores.get(x, ())) == len(loads.get(x, ())) and {id(c[4]) for c in cs} == {id(u) for u in loads[x]}:
                todos += cs
        if not todos:
            return n_done
        # all of them at once (they concern different names; the rewrites move expression objects, which stay valid for each other)
        for lst, i, st, nxt, use, path in todos:
            if not path:
                for f2, v2 in ast.iter_fields(nxt):
                    if v2 is use:
                        setattr(nxt, f2, st.value)
                    elif isinstance(v2, list):
                        for w in v2:
                            if isinstance(w, ast.withitem) and w.context_expr is use:
                                w.context_expr = st.value
            else:
                parent, f2, idx = path[-1]
                if idx is None:
                    setattr(parent, f2, st.value)
                else:
                    getattr(parent, f2)[idx] = st.value
            for k_, y in enumerate(lst):
                if y is st:
                    del lst[k_]
                    break
            n_done += 1


def inline_adjacent_temps(repo, rebuild, only_keys=None):
    """Applied to every tree, the reference one included: the rules see `return E` / `if E:` whether or not the code names E first.
    With `only_keys`, only the functions with these keys are treated (the unlisted helpers, before they are expanded)."""
    changed = set()
    total = 0
    only_nodes = None
    if only_keys is not None:
        only_nodes = {id(f.node) for m in repo.modules.values() for f in m.all_functions() if f.key in only_keys}
    for rel, m in repo.modules.items():
        n = 0
        for f in [x for x in ast.walk(m.tree) if isinstance(x, _FUNC)]:
            if only_nodes is not None and id(f) not in only_nodes:
                continue
            # outermost functions only (nested ones are handled as part of them)
            p = getattr(f, "_parent", None)
            nested = False
            while p is not None:
                if isinstance(p, _FUNC):
                    nested = True
                    break
                p = getattr(p, "_parent", None)
            if not nested or only_nodes is not None:
                n += _inline_temps_in_function(f)
        if n:
            ast.fix_missing_locations(m.tree)
            changed.add(rel)
            total += n
    if changed:
        rebuild(repo, changed)
    return total


# ---------------------------------------------------------------------------------------------------------------------
# copies that helper expansion leaves behind:  v__inlK = x ... (x untouched) ... x = v__inlK   ->   the region works on x itself

import re as _re
_INL = _re.compile(r"__inl\d+$")


def _mentions(node, name):
    return any(isinstance(y, ast.Name) and y.id == name for y in ast.walk(node))


def _coalesce_in_block(block, fnode):
    n = 0
    j = 0
    while j < len(block):
        st = block[j]
        if isinstance(st, ast.Assign) and len(st.targets) == 1 and isinstance(st.targets[0], ast.Name) and isinstance(st.value, ast.Name) \
                and _INL.search(st.value.id) and not _INL.search(st.targets[0].id):
            x, y = st.targets[0].id, st.value.id
            first = next((i for i in range(j) if _mentions(block[i], y)), None)
            uses_elsewhere = sum(1 for z in ast.walk(fnode) if isinstance(z, ast.Name) and z.id == y) - \
                sum(1 for i in range(first if first is not None else j, j + 1) for z in ast.walk(block[i]) if isinstance(z, ast.Name) and z.id == y)
            if first is not None and uses_elsewhere == 0:
                region = block[first:j]
                head = region[0]
                head_is_copy = isinstance(head, ast.Assign) and len(head.targets) == 1 and isinstance(head.targets[0], ast.Name) and \
                    head.targets[0].id == y and isinstance(head.value, ast.Name) and head.value.id == x
                rest = region[1:] if head_is_copy else region
                if not any(_mentions(r, x) for r in rest):
                    for r in region:
                        for z in ast.walk(r):
                            if isinstance(z, ast.Name) and z.id == y:
                                z.id = x
                    drop = [j] + ([first] if head_is_copy else [])
                    for k in sorted(drop, reverse=True):
                        del block[k]
                    n += 1
                    j -= len(drop) - 1
                    continue
        elif isinstance(st, ast.Assign) and len(st.targets) == 1 and isinstance(st.targets[0], ast.Name) and not isinstance(st.value, ast.Name) \
                and not _INL.search(st.targets[0].id) and _effect_free(st.value):
            # y = x; ... (x not mentioned) ...; x = E(y)   with y an expansion's copy used nowhere else:  ...; x = E(x)
            x = st.targets[0].id
            ys = sorted({z.id for z in ast.walk(st.value) if isinstance(z, ast.Name) and _INL.search(z.id)})
            for y in ys:
                first = next((i for i in range(j) if _mentions(block[i], y)), None)
                if first is None:
                    continue
                head = block[first]
                if not (isinstance(head, ast.Assign) and len(head.targets) == 1 and isinstance(head.targets[0], ast.Name) and head.targets[0].id == y
                        and isinstance(head.value, ast.Name) and head.value.id == x):
                    continue
                uses_elsewhere = sum(1 for z in ast.walk(fnode) if isinstance(z, ast.Name) and z.id == y) - \
                    sum(1 for i in range(first, j + 1) for z in ast.walk(block[i]) if isinstance(z, ast.Name) and z.id == y)
                if uses_elsewhere or any(_mentions(r, x) for r in block[first + 1:j]) or any(isinstance(z, ast.Name) and z.id == x for z in ast.walk(st.value)):
                    continue
                for r in block[first + 1:j + 1]:
                    for z in ast.walk(r):
                        if isinstance(z, ast.Name) and z.id == y:
                            z.id = x
                del block[first]
                n += 1
                j -= 1
                if isinstance(st.value, ast.BinOp) and isinstance(st.value.left, ast.Name) and st.value.left.id == x and \
                        not any(isinstance(z, ast.Name) and z.id == x for z in ast.walk(st.value.right)):
                    # x = x + k is spelled x += k again (what the helper's `return ctr + 1` stood for)
                    block[j] = ast.copy_location(ast.AugAssign(target=ast.Name(id=x, ctx=ast.Store()), op=st.value.op, value=st.value.right), st)
                break
        j += 1
    return n


def coalesce_inlined_copies(repo, rebuild):
    changed = set()
    for rel, m in repo.modules.items():
        n = 0
        for f in [x for x in ast.walk(m.tree) if isinstance(x, _FUNC)]:
            if not any(isinstance(z, ast.Name) and _INL.search(z.id) for z in ast.walk(f)):
                continue
            for holder in ast.walk(f):
                if isinstance(holder, ast.Try) or (holder is not f and isinstance(holder, _FUNC)):
                    continue
                for field in ("body", "orelse"):
                    blk = getattr(holder, field, None)
                    if isinstance(blk, list) and blk and isinstance(blk[0], ast.stmt):
                        # not inside a try: an exception half-way would leave x changed where the original left it alone
                        p, in_try = holder, False
                        while p is not None and p is not f:
                            if isinstance(p, ast.Try):
                                in_try = True
                            p = getattr(p, "_parent", None)
                        if not in_try:
                            n += _coalesce_in_block(blk, f)
        if n:
            ast.fix_missing_locations(m.tree)
            changed.add(rel)
    if changed:
        rebuild(repo, changed)
    return len(changed)


# ---------------------------------------------------------------------------------------------------------------------
# literal folding: loops / comprehensions over a literal sequence of constants, setattr / getattr with a constant name


def _const_elems(e):
    """Elements of a tuple / list display whose elements are constants or effect-free expressions without names that a loop body could
    re-bind (attribute paths, arithmetic on them) - or tuples of such -, else None.  (Substituting such an element for the loop
    variable at every use evaluates it more often but to the same value.)"""
    def simple(x):
        if isinstance(x, ast.Constant):
            return True
        if isinstance(x, ast.Starred):
            return False
        return _effect_free(x) and not any(isinstance(y, (ast.Subscript, ast.List, ast.Dict, ast.Set)) for y in ast.walk(x))
    if isinstance(e, (ast.Tuple, ast.List)) and len(e.elts) <= 32:
        ok = all(simple(x) or (isinstance(x, ast.Tuple) and all(simple(y) for y in x.elts)) for x in e.elts)
        return list(e.elts) if ok else None
    return None


class _SubstName(ast.NodeTransformer):
    def __init__(self, mapping):
        self.m = mapping

    def visit_Name(self, node):
        if isinstance(node.ctx, ast.Load) and node.id in self.m:
            return clone(self.m[node.id])
        return node


def _bind_target(target, value):
    """{name: constant node} for `target` bound to the constant `value` (a Name, or a tuple of Names against a tuple constant)."""
    if isinstance(target, ast.Name):
        return {target.id: value}
    if isinstance(target, (ast.Tuple, ast.List)) and isinstance(value, ast.Tuple) and len(target.elts) == len(value.elts) and \
            all(isinstance(t, ast.Name) for t in target.elts):
        return {t.id: v for t, v in zip(target.elts, value.elts)}
    return None


class _FoldLiterals(ast.NodeTransformer):
    def __init__(self, module, repo):
        self.module, self.repo, self.count = module, repo, 0
        self.func_stack = []

    # -- iterables -------------------------------------------------------------------------------------------------------
    def _iter_elems(self, it):
        els = _const_elems(it)
        if els is not None:
            return els
        # <Class>.<attr> / self.<attr> / cls.<attr> naming a class-level display of constants (e.g. __slots__), read-only here
        if isinstance(it, ast.Attribute) and isinstance(it.value, ast.Name):
            ci = None
            if it.value.id in ("self", "cls") and self.func_stack and self.func_stack[-1] is not None:
                ci = self.func_stack[-1]
            elif it.value.id in self.module.classes:
                ci = self.module.classes[it.value.id]
            if ci is not None and it.attr in ci.attrs:
                return _const_elems(ci.attrs[it.attr])
        return None

    def visit_ClassDef(self, node):
        self.func_stack.append(self.module.classes.get(node.name))
        self.generic_visit(node)
        self.func_stack.pop()
        return node

    # -- expressions -----------------------------------------------------------------------------------------------------
    def visit_Call(self, node):
        self.generic_visit(node)
        d = dotted(node.func)
        if d in ("list", "tuple") and len(node.args) == 1 and not node.keywords:
            a = node.args[0]
            if isinstance(a, (ast.Tuple, ast.List)) and not any(isinstance(x, ast.Starred) for x in a.elts):
                self.count += 1
                cls_ = ast.List if d == "list" else ast.Tuple
                return ast.copy_location(cls_(elts=a.elts, ctx=ast.Load()), node)
        if d == "getattr" and len(node.args) == 2 and not node.keywords and isinstance(node.args[1], ast.Constant) and \
                isinstance(node.args[1].value, str) and node.args[1].value.isidentifier():
            self.count += 1
            return ast.copy_location(ast.Attribute(value=node.args[0], attr=node.args[1].value, ctx=ast.Load()), node)
        if d in ("bytes", "str") and not node.args and not node.keywords:
            self.count += 1
            return ast.copy_location(ast.Constant(value=b"" if d == "bytes" else ""), node)
        if d is not None and d.startswith("operator.") and self.module.imports.get("operator") == "operator" and not node.keywords and \
                not any(isinstance(a, ast.Starred) for a in node.args):
            # operator.and_(a, b) -> a & b ...   (the operands are evaluated in the same order)
            nm = d.split(".", 1)[1]
            binops = {"and_": ast.BitAnd, "or_": ast.BitOr, "xor": ast.BitXor, "add": ast.Add, "sub": ast.Sub, "mul": ast.Mult, "floordiv": ast.FloorDiv,
                      "truediv": ast.Div, "mod": ast.Mod, "lshift": ast.LShift, "rshift": ast.RShift, "pow": ast.Pow, "concat": ast.Add}
            cmps = {"eq": ast.Eq, "ne": ast.NotEq, "lt": ast.Lt, "le": ast.LtE, "gt": ast.Gt, "ge": ast.GtE, "is_": ast.Is, "is_not": ast.IsNot}
            unops = {"not_": ast.Not, "neg": ast.USub, "pos": ast.UAdd, "inv": ast.Invert, "invert": ast.Invert}
            if nm in binops and len(node.args) == 2:
                self.count += 1
                return ast.copy_location(ast.BinOp(left=node.args[0], op=binops[nm](), right=node.args[1]), node)
            if nm in cmps and len(node.args) == 2:
                self.count += 1
                return ast.copy_location(ast.Compare(left=node.args[0], ops=[cmps[nm]()], comparators=[node.args[1]]), node)
            if nm in unops and len(node.args) == 1:
                self.count += 1
                return ast.copy_location(ast.UnaryOp(op=unops[nm](), operand=node.args[0]), node)
            if nm == "getitem" and len(node.args) == 2:
                self.count += 1
                return ast.copy_location(ast.Subscript(value=node.args[0], slice=node.args[1], ctx=ast.Load()), node)
        if d == "reversed" and len(node.args) == 1 and not node.keywords and isinstance(node.args[0], ast.Call) and dotted(node.args[0].func) == "range" \
                and not node.args[0].keywords and 1 <= len(node.args[0].args) <= 2 and all(_effect_free(a) for a in node.args[0].args):
            # reversed(range(n)) -> range(n - 1, -1, -1);  reversed(range(a, b)) -> range(b - 1, a - 1, -1)      (same integers in the same order)
            ra = node.args[0].args
            lo = ra[0] if len(ra) == 2 else ast.Constant(value=0)
            hi = ra[-1]
            def minus1(e):
                if isinstance(e, ast.Constant) and isinstance(e.value, int) and not isinstance(e.value, bool):
                    v = e.value - 1
                    return ast.UnaryOp(op=ast.USub(), operand=ast.Constant(value=-v)) if v < 0 else ast.Constant(value=v)
                return ast.BinOp(left=e, op=ast.Sub(), right=ast.Constant(value=1))
            self.count += 1
            return ast.copy_location(ast.Call(func=ast.Name(id="range", ctx=ast.Load()), args=[minus1(hi), minus1(lo), ast.UnaryOp(op=ast.USub(), operand=ast.Constant(value=1))],
                                              keywords=[]), node)
        if isinstance(node.func, ast.Attribute) and node.func.attr == "join" and isinstance(node.func.value, ast.Constant) and node.func.value.value == b"" and \
                len(node.args) == 1 and not node.keywords and isinstance(node.args[0], (ast.Tuple, ast.List)) and 2 <= len(node.args[0].elts) <= 16 and \
                not any(isinstance(x, ast.Starred) for x in node.args[0].elts) and self.module.rel.startswith("schemes/"):
            # b''.join((a, b, c))  ->  a + b + c        (byte strings; the structure classes concatenate their fields either way)
            self.count += 1
            e = node.args[0].elts[0]
            for x in node.args[0].elts[1:]:
                e = ast.BinOp(left=e, op=ast.Add(), right=x)
            return ast.copy_location(e, node)
        if any(k.arg is None and isinstance(k.value, ast.Dict) and k.value.keys and all(isinstance(kk, ast.Constant) and isinstance(kk.value, str) and kk.value.isidentifier()
                                                                                         for kk in k.value.keys) for k in node.keywords):
            # f(**{"a": x, "b": y})  ->  f(a=x, b=y)
            new_kw = []
            for k in node.keywords:
                if k.arg is None and isinstance(k.value, ast.Dict) and k.value.keys and all(isinstance(kk, ast.Constant) and isinstance(kk.value, str) and kk.value.isidentifier() for kk in k.value.keys):
                    new_kw += [ast.keyword(arg=kk.value, value=vv) for kk, vv in zip(k.value.keys, k.value.values)]
                else:
                    new_kw.append(k)
            if len({k.arg for k in new_kw if k.arg}) == len([k for k in new_kw if k.arg]):
                node.keywords = new_kw
                self.count += 1
        if d in ("all", "any") and len(node.args) == 1 and not node.keywords:
            seq = node.args[0]
            vals = None
            if isinstance(seq, (ast.List, ast.Tuple)) and not any(isinstance(x, ast.Starred) for x in seq.elts):
                vals = list(seq.elts)
            if vals is not None and 1 <= len(vals) <= 32:
                self.count += 1
                if len(vals) == 1:
                    return vals[0]
                return ast.copy_location(ast.BoolOp(op=ast.And() if d == "all" else ast.Or(), values=vals), node)
        return node

    def _unroll_comp(self, node, elt_of):
        if len(node.generators) != 1:
            return None
        g = node.generators[0]
        if g.ifs or g.is_async:
            return None
        els = self._iter_elems(g.iter)
        if els is None:
            return None
        out = []
        for v in els:
            b = _bind_target(g.target, v)
            if b is None:
                return None
            out.append(_SubstName(b).visit(clone(elt_of(node))))
        return out

    def visit_ListComp(self, node):
        self.generic_visit(node)
        out = self._unroll_comp(node, lambda n: n.elt)
        if out is None:
            return node
        self.count += 1
        return ast.copy_location(ast.List(elts=out, ctx=ast.Load()), node)

    def visit_GeneratorExp(self, node):
        self.generic_visit(node)
        out = self._unroll_comp(node, lambda n: n.elt)
        if out is None:
            return node
        # only where a generator is consumed at once: the argument of all / any / tuple / list / sum / b''.join ... is decided by the parent
        p = getattr(node, "_parent", None)
        if isinstance(p, ast.Call) and p.args and p.args[0] is node and len(p.args) == 1 and (dotted(p.func) in ("all", "any", "tuple", "list", "sum", "max", "min", "sorted", "set", "frozenset") or
                                                                                              (isinstance(p.func, ast.Attribute) and p.func.attr == "join")):
            self.count += 1
            return ast.copy_location(ast.Tuple(elts=out, ctx=ast.Load()), node)
        return node

    # -- statements ------------------------------------------------------------------------------------------------------
    def visit_Expr(self, node):
        self.generic_visit(node)
        c = node.value
        if isinstance(c, ast.Call) and dotted(c.func) == "setattr" and len(c.args) == 3 and not c.keywords and isinstance(c.args[1], ast.Constant) and \
                isinstance(c.args[1].value, str) and c.args[1].value.isidentifier():
            self.count += 1
            return ast.copy_location(ast.Assign(targets=[ast.Attribute(value=c.args[0], attr=c.args[1].value, ctx=ast.Store())], value=c.args[2]), node)
        return node

    # -- arithmetic spellings ----------------------------------------------------------------------------------------------
    def visit_BinOp(self, node):
        self.generic_visit(node)
        # (a, b) + (c, d)  ->  (a, b, c, d)   (likewise lists)
        if isinstance(node.op, ast.Add) and type(node.left) is type(node.right) and isinstance(node.left, (ast.Tuple, ast.List)) and \
                not any(isinstance(x, ast.Starred) for x in node.left.elts + node.right.elts):
            self.count += 1
            return ast.copy_location(type(node.left)(elts=node.left.elts + node.right.elts, ctx=ast.Load()), node)
        # only in the scheme modules, whose reference spelling is 2 ** k and math.ceil(a / b) on small sizes; the bit / byte toolkit
        # is left alone - there the integer spellings are the reference and a float division is itself a finding (C18)
        if not self.module.rel.startswith("schemes/"):
            return node
        # 1 << k  ->  2 ** k
        if isinstance(node.op, ast.LShift) and isinstance(node.left, ast.Constant) and node.left.value == 1 and not isinstance(node.left.value, bool):
            self.count += 1
            return ast.copy_location(ast.BinOp(left=ast.Constant(value=2), op=ast.Pow(), right=node.right), node)
        if isinstance(node.op, ast.FloorDiv):
            num, den = node.left, node.right
            ceil = None
            # (a + b - 1) // b   /   (a + (b - 1)) // b   /   (b - 1 + a) // b      (ceil(a / b) for integers, b > 0)
            terms_ = self._sum_terms(num)
            if terms_ is not None and len(terms_) >= 2:
                den_txt = unparse(den)
                pos = [t for sg, t in terms_ if sg > 0]
                consts = [sg * t.value for sg, t in terms_ if isinstance(t, ast.Constant) and isinstance(t.value, int) and not isinstance(t.value, bool)]
                others = [(sg, t) for sg, t in terms_ if not (isinstance(t, ast.Constant) and isinstance(t.value, int) and not isinstance(t.value, bool))]
                k = sum(consts)
                if isinstance(den, ast.Constant) and isinstance(den.value, int) and den.value > 0 and others and k >= den.value - 1:
                    # (E + k) // c with k >= c - 1   ==   ceil((E + k - (c - 1)) / c)
                    rest = k - (den.value - 1)
                    e = self._build_sum(others, rest)
                    ceil = (e, den)
                else:
                    # symbolic divisor: one "+ den" and one "- 1" among the terms
                    dens = [i for i, (sg, t) in enumerate(terms_) if sg > 0 and unparse(t) == den_txt]
                    if dens and k == -1 and len(consts) == 1:
                        rest_terms = [(sg, t) for i, (sg, t) in enumerate(terms_) if i != dens[0] and not (isinstance(t, ast.Constant) and isinstance(t.value, int))]
                        if rest_terms:
                            ceil = (self._build_sum(rest_terms, 0), den)
            if ceil is not None:
                self.count += 1
                return ast.copy_location(ast.Call(func=ast.Attribute(value=ast.Name(id="math", ctx=ast.Load()), attr="ceil", ctx=ast.Load()),
                                                  args=[ast.BinOp(left=ceil[0], op=ast.Div(), right=ceil[1])], keywords=[]), node)
        return node

    def visit_UnaryOp(self, node):
        self.generic_visit(node)
        if not self.module.rel.startswith("schemes/"):
            return node
        # -(-a // b)  ->  math.ceil(a / b)
        if isinstance(node.op, ast.USub) and isinstance(node.operand, ast.BinOp) and isinstance(node.operand.op, ast.FloorDiv) and \
                isinstance(node.operand.left, ast.UnaryOp) and isinstance(node.operand.left.op, ast.USub):
            self.count += 1
            return ast.copy_location(ast.Call(func=ast.Attribute(value=ast.Name(id="math", ctx=ast.Load()), attr="ceil", ctx=ast.Load()),
                                              args=[ast.BinOp(left=node.operand.left.operand, op=ast.Div(), right=node.operand.right)], keywords=[]), node)
        return node

    @staticmethod
    def _sum_terms(e, sign=1):
        """[(sign, term)] of a chain of + / - (None if `e` is not one)."""
        if isinstance(e, ast.BinOp) and isinstance(e.op, (ast.Add, ast.Sub)):
            l = _FoldLiterals._sum_terms(e.left, sign)
            r = _FoldLiterals._sum_terms(e.right, sign if isinstance(e.op, ast.Add) else -sign)
            return (l or [(sign, e.left)]) + (r or [(sign if isinstance(e.op, ast.Add) else -sign, e.right)])
        return None

    @staticmethod
    def _build_sum(terms_, const):
        e = None
        for sg, t in terms_:
            if e is None:
                e = t if sg > 0 else ast.UnaryOp(op=ast.USub(), operand=t)
            else:
                e = ast.BinOp(left=e, op=ast.Add() if sg > 0 else ast.Sub(), right=t)
        if const:
            e = ast.BinOp(left=e, op=ast.Add() if const > 0 else ast.Sub(), right=ast.Constant(value=abs(const)))
        return e

    def visit_Return(self, node):
        self.generic_visit(node)
        if isinstance(node.value, ast.IfExp):
            # return A if c else B   ->   if c: return A  else: return B
            self.count += 1
            ie = node.value
            return ast.copy_location(ast.If(test=ie.test, body=[ast.copy_location(ast.Return(value=ie.body), node)],
                                            orelse=[ast.copy_location(ast.Return(value=ie.orelse), node)]), node)
        return node

    def visit_Assign(self, node):
        self.generic_visit(node)
        if isinstance(node.value, ast.IfExp) and all(isinstance(t, (ast.Name, ast.Attribute)) for t in node.targets):
            # x = A if c else B   ->   if c: x = A  else: x = B        (the targets are evaluated after the value either way)
            self.count += 1
            ie = node.value
            return ast.copy_location(ast.If(test=ie.test, body=[ast.copy_location(ast.Assign(targets=[clone(t) for t in node.targets], value=ie.body), node)],
                                            orelse=[ast.copy_location(ast.Assign(targets=[clone(t) for t in node.targets], value=ie.orelse), node)]), node)
        return node

    def _enumerate_of_sized_list(self, node):
        """for i, x in enumerate(X): BODY  ->  for i in range(N): x = X[i]; BODY     when X is a local built once as [E for _ in range(N)] (or
        [E] * N), never resized or re-bound, and N is made of names bound once."""
        it = node.iter
        if not (isinstance(it, ast.Call) and dotted(it.func) == "enumerate" and len(it.args) == 1 and not it.keywords and isinstance(it.args[0], ast.Name)):
            return None
        if not (isinstance(node.target, ast.Tuple) and len(node.target.elts) == 2 and all(isinstance(e, ast.Name) for e in node.target.elts)):
            return None
        i, x = (e.id for e in node.target.elts)
        X = it.args[0].id
        fn = getattr(node, "_parent", None)
        while fn is not None and not isinstance(fn, _FUNC):
            fn = getattr(fn, "_parent", None)
        if fn is None:
            return None
        stores = {}
        for z in ast.walk(fn):
            if isinstance(z, ast.Name) and isinstance(z.ctx, (ast.Store, ast.Del)):
                stores[z.id] = stores.get(z.id, 0) + 1
        params = {a.arg for a in ast.walk(fn.args) if isinstance(a, ast.arg)}
        defs = [z for z in ast.walk(fn) if isinstance(z, ast.Assign) and len(z.targets) == 1 and isinstance(z.targets[0], ast.Name) and z.targets[0].id == X]
        if len(defs) != 1 or stores.get(X, 0) != 1 or X in params:
            return None
        v = defs[0].value
        N = None
        if isinstance(v, ast.ListComp) and len(v.generators) == 1 and not v.generators[0].ifs and isinstance(v.generators[0].iter, ast.Call) and \
                dotted(v.generators[0].iter.func) == "range" and len(v.generators[0].iter.args) == 1 and not v.generators[0].iter.keywords:
            N = v.generators[0].iter.args[0]
        elif isinstance(v, ast.BinOp) and isinstance(v.op, ast.Mult) and isinstance(v.left, ast.List) and len(v.left.elts) == 1:
            N = v.right
        if N is None or not _effect_free(N):
            return None
        for z in ast.walk(N):
            if isinstance(z, ast.Name) and not (stores.get(z.id, 0) == 1 or (z.id in params and stores.get(z.id, 0) == 0)):
                return None
            if isinstance(z, (ast.Call, ast.Attribute, ast.Subscript)):
                return None
        for z in ast.walk(fn):
            if isinstance(z, ast.Call) and isinstance(z.func, ast.Attribute) and isinstance(z.func.value, ast.Name) and z.func.value.id == X and \
                    z.func.attr in ("append", "extend", "insert", "pop", "remove", "clear", "sort", "reverse", "__setitem__", "__delitem__", "__iadd__"):
                return None
            if isinstance(z, ast.Delete) and any(X in {y.id for y in ast.walk(t_) if isinstance(y, ast.Name)} for t_ in z.targets):
                return None
            if isinstance(z, ast.AugAssign) and isinstance(z.target, ast.Name) and z.target.id == X:
                return None
            if isinstance(z, ast.Subscript) and isinstance(z.value, ast.Name) and z.value.id == X and isinstance(z.slice, ast.Slice) and isinstance(z.ctx, (ast.Store, ast.Del)):
                return None
        if any(isinstance(z, ast.Name) and z.id in (i, x) and isinstance(z.ctx, (ast.Store, ast.Del)) for b in node.body for z in ast.walk(b)):
            return None
        self.count += 1
        elem = ast.Subscript(value=ast.Name(id=X, ctx=ast.Load()), slice=ast.Name(id=i, ctx=ast.Load()), ctx=ast.Load())
        inside = {id(z) for z in ast.walk(node)}
        comp_bound = set()
        for z in ast.walk(fn):
            if isinstance(z, (ast.ListComp, ast.SetComp, ast.DictComp, ast.GeneratorExp)) and id(z) not in inside:
                if any(isinstance(y, ast.Name) and y.id == x for g in z.generators for y in ast.walk(g.target)):
                    comp_bound |= {id(y) for y in ast.walk(z)}
        used_outside = any(isinstance(z, ast.Name) and z.id == x and id(z) not in inside and id(z) not in comp_bound for z in ast.walk(fn))
        nested_scope = any(isinstance(z, _FUNC + (ast.Lambda,)) for b in node.body for z in ast.walk(b))
        if not used_outside and not nested_scope:
            # x is the element only here: write the element where x stood
            sub = _SubstName({x: elem})
            body = [sub.visit(b) for b in node.body]
        else:
            bind = ast.copy_location(ast.Assign(targets=[ast.Name(id=x, ctx=ast.Store())], value=elem), node)
            body = [bind] + list(node.body)
        new = ast.For(target=ast.Name(id=i, ctx=ast.Store()), iter=ast.Call(func=ast.Name(id="range", ctx=ast.Load()), args=[clone(N)], keywords=[]),
                      body=body, orelse=[], type_comment=None)
        ast.copy_location(new, node)
        ast.fix_missing_locations(new)
        return new

    def visit_For(self, node):
        self.generic_visit(node)
        if node.orelse:
            return node
        if isinstance(node.iter, ast.Call) and dotted(node.iter.func) in ("itertools.count", "count") and isinstance(node.target, ast.Name) and \
                not node.iter.keywords and len(node.iter.args) <= 1 and all(isinstance(a, ast.Constant) and isinstance(a.value, int) for a in node.iter.args) and \
                (dotted(node.iter.func) == "itertools.count" or self.module.imports.get("count") == "itertools.count"):
            # for c in itertools.count(a): BODY   ->   c = a; while True: BODY; c += 1      (BODY neither continues nor assigns c)
            c = node.target.id

            def level(nodes, kind):
                stack, out = list(nodes), []
                while stack:
                    n_ = stack.pop()
                    if isinstance(n_, kind):
                        out.append(n_)
                    if isinstance(n_, (ast.For, ast.AsyncFor, ast.While) + _FUNC + (ast.Lambda, ast.ClassDef)):
                        continue
                    stack.extend(ast.iter_child_nodes(n_))
                return out
            if not level(node.body, ast.Continue) and not any(isinstance(x, ast.Name) and x.id == c and isinstance(x.ctx, (ast.Store, ast.Del))
                                                               for b in node.body for x in ast.walk(b)):
                start = node.iter.args[0] if node.iter.args else ast.Constant(value=0)
                init = ast.copy_location(ast.Assign(targets=[ast.Name(id=c, ctx=ast.Store())], value=start), node)
                inc = ast.AugAssign(target=ast.Name(id=c, ctx=ast.Store()), op=ast.Add(), value=ast.Constant(value=1))
                loop = ast.copy_location(ast.While(test=ast.Constant(value=True), body=list(node.body) + [inc], orelse=[]), node)
                ast.fix_missing_locations(init)
                ast.fix_missing_locations(loop)
                self.count += 1
                return [init, loop]
        r_enum = self._enumerate_of_sized_list(node)
        if r_enum is not None:
            return r_enum
        if isinstance(node.iter, (ast.Tuple, ast.List)) and len(node.iter.elts) == 1 and not isinstance(node.iter.elts[0], ast.Starred) and \
                isinstance(node.target, ast.Name) and not any(isinstance(x, (ast.Break, ast.Continue)) for b in node.body for x in ast.walk(b)):
            # for x in (E,): BODY   ->   x = E; BODY
            self.count += 1
            asg = ast.copy_location(ast.Assign(targets=[ast.Name(id=node.target.id, ctx=ast.Store())], value=node.iter.elts[0]), node)
            ast.fix_missing_locations(asg)
            return [asg] + list(node.body)
        els = self._iter_elems(node.iter)
        if els is None or not els:
            return node
        if any(isinstance(x, (ast.Break, ast.Continue)) for b in node.body for x in ast.walk(b)):
            return node
        names = {x.id for x in ast.walk(node.target) if isinstance(x, ast.Name)}
        # the loop variable is not assigned in the body and not used after the loop
        if any(isinstance(x, ast.Name) and x.id in names and isinstance(x.ctx, (ast.Store, ast.Del)) for b in node.body for x in ast.walk(b)):
            return node
        fn = getattr(node, "_parent", None)
        while fn is not None and not isinstance(fn, _FUNC + (ast.Module, ast.ClassDef)):
            fn = getattr(fn, "_parent", None)
        if fn is not None:
            inside = {id(x) for x in ast.walk(node)}
            if any(isinstance(x, ast.Name) and x.id in names and id(x) not in inside for x in ast.walk(fn)):
                return node
        used = {y.id for v in els for y in ast.walk(v) if isinstance(y, ast.Name)}
        if used and any(isinstance(x, ast.Name) and x.id in used and isinstance(x.ctx, (ast.Store, ast.Del)) for b in node.body for x in ast.walk(b)):
            return node
        if used and any(isinstance(x, ast.Attribute) and isinstance(x.ctx, (ast.Store, ast.Del)) for b in node.body for x in ast.walk(b)):
            return node
        out = []
        for v in els:
            b = _bind_target(node.target, v)
            if b is None:
                return node
            for st in node.body:
                out.append(_SubstName(b).visit(clone(st)))
        self.count += 1
        return out


def _merge_dict_building(tree):
    """d = {...} directly followed by d.update({...}) / d[<const>] = v   ->   one display (later entries override earlier ones)."""
    n = 0
    for holder in ast.walk(tree):
        for field in ("body", "orelse", "finalbody"):
            lst = getattr(holder, field, None)
            if not (isinstance(lst, list) and lst and isinstance(lst[0], ast.stmt)) or isinstance(holder, (ast.ClassDef, ast.Module)):
                continue
            i = 0
            while i < len(lst) - 1:
                st, nxt = lst[i], lst[i + 1]
                if not (isinstance(st, ast.Assign) and len(st.targets) == 1 and isinstance(st.targets[0], ast.Name) and isinstance(st.value, ast.Dict)):
                    i += 1
                    continue
                x = st.targets[0].id
                add = None
                if isinstance(nxt, ast.Expr) and isinstance(nxt.value, ast.Call) and isinstance(nxt.value.func, ast.Attribute) and nxt.value.func.attr == "update" and \
                        isinstance(nxt.value.func.value, ast.Name) and nxt.value.func.value.id == x and len(nxt.value.args) == 1 and not nxt.value.keywords and \
                        isinstance(nxt.value.args[0], ast.Dict):
                    add = list(zip(nxt.value.args[0].keys, nxt.value.args[0].values))
                elif isinstance(nxt, ast.Assign) and len(nxt.targets) == 1 and isinstance(nxt.targets[0], ast.Subscript) and isinstance(nxt.targets[0].value, ast.Name) and \
                        nxt.targets[0].value.id == x and isinstance(nxt.targets[0].slice, ast.Constant):
                    add = [(nxt.targets[0].slice, nxt.value)]
                if add is None or any(isinstance(y, ast.Name) and y.id == x for _k, v in add for y in ast.walk(v)):
                    i += 1
                    continue
                d = st.value
                for k, v in add:
                    if k is not None and isinstance(k, ast.Constant):
                        for j, k0 in enumerate(d.keys):
                            if isinstance(k0, ast.Constant) and k0.value == k.value and _effect_free(d.values[j]):
                                del d.keys[j]
                                del d.values[j]
                                break
                    d.keys.append(k)
                    d.values.append(v)
                del lst[i + 1]
                n += 1
    return n


def _loops_to_comprehensions(tree):
    """acc = b'' ; for x in IT: acc += E        ->   acc = b''.join([E for x in IT])
    (E does not mention acc, the loop body is that single statement, no else).  Used in the scheme modules, whose reference spelling of a
    block of ciphertexts is the joined comprehension."""
    n = 0
    for holder in ast.walk(tree):
        for field in ("body", "orelse", "finalbody"):
            lst = getattr(holder, field, None)
            if not (isinstance(lst, list) and lst and isinstance(lst[0], ast.stmt)) or isinstance(holder, (ast.ClassDef, ast.Module)):
                continue
            i = 0
            while i < len(lst) - 1:
                st, lp = lst[i], lst[i + 1]
                if isinstance(st, ast.Assign) and len(st.targets) == 1 and isinstance(st.targets[0], ast.Name) and isinstance(st.value, ast.Constant) and st.value.value == b"" and \
                        isinstance(lp, ast.For) and not lp.orelse and len(lp.body) == 1 and isinstance(lp.body[0], ast.AugAssign) and isinstance(lp.body[0].op, ast.Add) and \
                        isinstance(lp.body[0].target, ast.Name) and lp.body[0].target.id == st.targets[0].id:
                    acc = st.targets[0].id
                    e = lp.body[0].value
                    if not any(isinstance(y, ast.Name) and y.id == acc for y in ast.walk(e)) and not any(isinstance(y, ast.Name) and y.id == acc for y in ast.walk(lp.iter)):
                        comp = ast.ListComp(elt=e, generators=[ast.comprehension(target=lp.target, iter=lp.iter, ifs=[], is_async=0)])
                        st.value = ast.Call(func=ast.Attribute(value=ast.Constant(value=b""), attr="join", ctx=ast.Load()), args=[comp], keywords=[])
                        del lst[i + 1]
                        n += 1
                        continue
                i += 1
    return n


def lower_takewhile(repo, rebuild):
    """`return list(itertools.takewhile(P, (E for v in IT)))` (also `x = list(...)`) with a named predicate P and an effect-free E
    ->  acc = []; for v in IT: if not P(E): break; acc.append(E); return acc   - the loop the comprehension stands for."""
    changed = set()
    for rel, m in repo.modules.items():
        if not rel.startswith(("schemes/", "toolkit/", "frontend/", "data_persistence/")):
            continue
        n = 0
        for f in [x for x in ast.walk(m.tree) if isinstance(x, _FUNC)]:
            used = {x.id for x in ast.walk(f) if isinstance(x, ast.Name)}
            for holder in list(ast.walk(f)):
                for field in ("body", "orelse", "finalbody"):
                    blk = getattr(holder, field, None)
                    if not (isinstance(blk, list) and blk and isinstance(blk[0], ast.stmt)):
                        continue
                    i = 0
                    while i < len(blk):
                        st = blk[i]
                        i += 1
                        val = st.value if isinstance(st, (ast.Return, ast.Assign)) else None
                        if isinstance(st, ast.Assign) and not (len(st.targets) == 1 and isinstance(st.targets[0], ast.Name)):
                            continue

                        def is_list_tw(v):
                            return isinstance(v, ast.Call) and isinstance(v.func, ast.Name) and v.func.id == "list" and len(v.args) == 1 and not v.keywords and \
                                isinstance(v.args[0], ast.Call) and (dotted(v.args[0].func) or "").split(".")[-1] == "takewhile"
                        if isinstance(val, ast.Call) and not is_list_tw(val) and len(val.args) == 1 and not val.keywords and is_list_tw(val.args[0]) and dotted(val.func) is not None:
                            # C(list(takewhile(..))): the list is built first, then handed to C
                            tmpn = "taken__tw%d" % (n + 1)
                            if tmpn in used:
                                continue
                            hoist = ast.copy_location(ast.Assign(targets=[ast.Name(id=tmpn, ctx=ast.Store())], value=val.args[0]), st)
                            val.args[0] = ast.copy_location(ast.Name(id=tmpn, ctx=ast.Load()), val)
                            ast.fix_missing_locations(hoist)
                            blk.insert(i - 1, hoist)
                            used.add(tmpn)
                            st, val = hoist, hoist.value
                        if not is_list_tw(val):
                            continue
                        tw = val.args[0]
                        if not (isinstance(tw, ast.Call) and (dotted(tw.func) or "").split(".")[-1] == "takewhile" and len(tw.args) == 2 and not tw.keywords):
                            continue
                        if (dotted(tw.func) or "") not in ("itertools.takewhile", "takewhile") or (dotted(tw.func) == "takewhile" and m.imports.get("takewhile") != "itertools.takewhile"):
                            continue
                        pred, gen = tw.args
                        if isinstance(gen, ast.Call) and isinstance(gen.func, ast.Name) and gen.func.id == "map" and len(gen.args) == 2 and not gen.keywords and \
                                dotted(gen.args[0]) is not None:
                            # map(F, IT) is (F(v) for v in IT)
                            mv_ = "mapped__tw%d" % (n + 1)
                            gen = ast.GeneratorExp(elt=ast.Call(func=gen.args[0], args=[ast.Name(id=mv_, ctx=ast.Load())], keywords=[]),
                                                   generators=[ast.comprehension(target=ast.Name(id=mv_, ctx=ast.Store()), iter=gen.args[1], ifs=[], is_async=0)])
                        lam = None
                        if isinstance(pred, ast.Lambda) and len(pred.args.args) == 1 and not (pred.args.posonlyargs or pred.args.kwonlyargs or pred.args.vararg or pred.args.kwarg
                                                                                             or pred.args.defaults) and _effect_free(pred.body):
                            lam = pred
                        if not ((isinstance(pred, ast.Name) or lam is not None) and isinstance(gen, ast.GeneratorExp) and len(gen.generators) == 1 and not gen.generators[0].ifs
                                and not gen.generators[0].is_async):
                            continue
                        item = None
                        if not _effect_free(gen.elt):
                            item = "item__tw%d" % (n + 1)       # evaluated once per element, as the generator does
                            if item in used:
                                continue
                        g0 = gen.generators[0]
                        tnames = {x.id for x in ast.walk(g0.target) if isinstance(x, ast.Name)}
                        if tnames & (used - {x.id for x in ast.walk(gen) if isinstance(x, ast.Name)}):
                            continue   # the comprehension variable would clobber a local of the function
                        acc = st.targets[0].id if isinstance(st, ast.Assign) else "taken__tw%d" % (n + 1)
                        if isinstance(st, ast.Assign) and any(isinstance(x, ast.Name) and x.id == acc for x in ast.walk(val)):
                            continue
                        tgt = clone(g0.target)
                        for x in ast.walk(tgt):
                            if isinstance(x, ast.Name):
                                x.ctx = ast.Store()
                        init = ast.Assign(targets=[ast.Name(id=acc, ctx=ast.Store())], value=ast.List(elts=[], ctx=ast.Load()))
                        elt = (lambda: ast.Name(id=item, ctx=ast.Load())) if item is not None else (lambda: clone(gen.elt))
                        if lam is not None:
                            cond = _SubstName({lam.args.args[0].arg: elt()}).visit(clone(lam.body))
                        else:
                            cond = ast.Call(func=clone(pred), args=[elt()], keywords=[])
                        stop = ast.If(test=ast.UnaryOp(op=ast.Not(), operand=cond), body=[ast.Break()], orelse=[])
                        app = ast.Expr(value=ast.Call(func=ast.Attribute(value=ast.Name(id=acc, ctx=ast.Load()), attr="append", ctx=ast.Load()), args=[elt()], keywords=[]))
                        lbody = [stop, app]
                        if item is not None:
                            lbody.insert(0, ast.Assign(targets=[ast.Name(id=item, ctx=ast.Store())], value=gen.elt))
                        loop = ast.For(target=tgt, iter=g0.iter, body=lbody, orelse=[], type_comment=None)
                        new = [init, loop]
                        if isinstance(st, ast.Return):
                            new.append(ast.Return(value=ast.Name(id=acc, ctx=ast.Load())))
                        for z in new:
                            ast.copy_location(z, st)
                            ast.fix_missing_locations(z)
                        blk[i - 1:i] = new
                        i += len(new) - 1
                        n += 1
        if n:
            changed.add(rel)
    if changed:
        rebuild(repo, changed)
    return len(changed)


def fold_literals(repo, rebuild):
    changed = set()
    for rel, m in repo.modules.items():
        total = 0
        for _ in range(3):
            set_parents(m.tree)
            tr = _FoldLiterals(m, repo)
            tr.visit(m.tree)
            nb = _merge_dict_building(m.tree)
            if rel.startswith("schemes/"):
                nb += _loops_to_comprehensions(m.tree)
            total += tr.count + nb
            if not tr.count and not nb:
                break
        if total:
            ast.fix_missing_locations(m.tree)
            changed.add(rel)
    if changed:
        rebuild(repo, changed)
    return len(changed)


# ---------------------------------------------------------------------------------------------------------------------
# aliases of attribute paths:  f = self.config.prf_f ... f(k, m)   ->   self.config.prf_f(k, m)


def _attr_chain(e):
    """(root name, [attr, ...]) of a pure attribute path, else None."""
    path = []
    while isinstance(e, ast.Attribute):
        path.append(e.attr)
        e = e.value
    if isinstance(e, ast.Name) and path:
        return e.id, list(reversed(path))
    return None


def _alias_path(e):
    """(root name, names used as indices, attrs, has_subscript) of a path built from attribute accesses and subscripts with a
    plain name / constant index (`a.b[i].c`, `table[k][0]`), else None."""
    idx_names, attrs, sub = [], [], False
    while isinstance(e, (ast.Attribute, ast.Subscript)):
        if isinstance(e, ast.Attribute):
            attrs.append(e.attr)
            e = e.value
        else:
            sl = e.slice
            if isinstance(sl, ast.Name):
                idx_names.append(sl.id)
            elif isinstance(sl, ast.Constant) or (isinstance(sl, ast.UnaryOp) and isinstance(sl.operand, ast.Constant)):
                pass
            else:
                return None
            sub = True
            e = e.value
    if isinstance(e, ast.Name) and (attrs or sub):
        return e.id, idx_names, attrs, sub
    return None


def _inline_attr_aliases_in_function(fnode):
    n_done = 0
    # not in coroutines: between the binding and a later use another coroutine may run (at an await) and re-bind the attribute or the
    # slot, so the alias (old object) and the re-evaluated path (new object) are different things - rules about staleness depend on it
    nodes_ = list(ast.walk(fnode))
    if isinstance(fnode, ast.AsyncFunctionDef) or any(isinstance(x, (ast.Await, ast.AsyncFor, ast.AsyncWith, ast.Yield, ast.YieldFrom)) for x in nodes_):
        return 0
    if not any(isinstance(x, ast.Assign) and len(x.targets) == 1 and isinstance(x.targets[0], ast.Name) and isinstance(x.value, (ast.Attribute, ast.Subscript)) for x in nodes_):
        return 0
    for _round in range(12):
        stores, loads, params, other = {}, {}, set(), set()
        attr_stores = set()
        for x in ast.walk(fnode):
            if isinstance(x, ast.Name):
                (loads if isinstance(x.ctx, ast.Load) else stores).setdefault(x.id, []).append(x)
            elif isinstance(x, ast.arg):
                params.add(x.arg)
            elif isinstance(x, (ast.Global, ast.Nonlocal)):
                other |= set(x.names)
            elif isinstance(x, ast.Attribute) and isinstance(x.ctx, (ast.Store, ast.Del)):
                attr_stores.add(x.attr)
            elif isinstance(x, (ast.FunctionDef, ast.AsyncFunctionDef, ast.ClassDef)) and x is not fnode:
                other.add(x.name)
        todo = None
        for st in ast.walk(fnode):
            if not (isinstance(st, ast.Assign) and len(st.targets) == 1 and isinstance(st.targets[0], ast.Name)):
                continue
            x = st.targets[0].id
            ch = _alias_path(st.value)
            if ch is None or x in other or x in params or len(stores.get(x, ())) != 1 or not loads.get(x):
                continue
            root, idx_names, path, has_sub = ch
            if root == x or x in idx_names or root in other or any(n_ in other for n_ in idx_names):
                continue
            here = (st.lineno, st.col_offset)
            # the path means the same thing at every use: every name in it is bound only *before* the alias (textually - inside a
            # loop both the rebinding and the alias are then re-executed in that order), none of its attributes is stored in this
            # function, and no slot of the containers it walks through is re-bound after the alias
            if any((w.lineno, w.col_offset) >= here for n_ in [root] + idx_names for w in stores.get(n_, ())):
                continue
            if any(a in attr_stores for a in path):
                continue
            if has_sub:
                base_texts = set()
                e_ = st.value
                while isinstance(e_, (ast.Attribute, ast.Subscript)):
                    e_ = e_.value
                    base_texts.add(unparse(e_))
                late = False
                for y in ast.walk(fnode):
                    if isinstance(y, ast.Subscript) and isinstance(y.ctx, (ast.Store, ast.Del)) and unparse(y.value) in base_texts and (y.lineno, y.col_offset) >= here:
                        late = True
                    if isinstance(y, ast.Call) and isinstance(y.func, ast.Attribute) and y.func.attr in _MUTATORS and unparse(y.func.value) in base_texts and \
                            (y.lineno, y.col_offset) >= here:
                        late = True
                if late:
                    continue
                # a value that is re-bound in place through the alias (`b += ...`, `b = ...`) is not an alias use
            # every use comes after the binding (textually, and not inside a nested function that could run earlier - it cannot
            # run before its own definition, which also follows)
            if any((u.lineno, u.col_offset) <= (st.lineno, st.col_offset) for u in loads[x]):
                continue
            holder = getattr(st, "_parent", None)
            if holder is None:
                continue

            # evaluating the path can raise (KeyError, IndexError, AttributeError): it may only move to places that are covered by
            # exactly the same handlers - the binding and every use share their innermost enclosing try part (or have none)
            def try_region(n_):
                child, p_ = n_, getattr(n_, "_parent", None)
                while p_ is not None and p_ is not fnode:
                    if isinstance(p_, ast.Try):
                        for part in ("body", "orelse", "finalbody"):
                            if any(child is y for y in getattr(p_, part)):
                                return (id(p_), part)
                    if isinstance(p_, ast.ExceptHandler):
                        return (id(p_), "handler")
                    child, p_ = p_, getattr(p_, "_parent", None)
                return None
            reg = try_region(st)
            if any(try_region(u) != reg for u in loads[x]):
                continue
            todo = (st, x, holder)
            break
        if todo is None:
            return n_done
        st, x, holder = todo
        repl = st.value

        class R(ast.NodeTransformer):
            def visit_Name(self, node):
                if node.id == x and isinstance(node.ctx, ast.Load):
                    return ast.copy_location(clone(repl), node)
                return node
        R().visit(fnode)
        for field in ("body", "orelse", "finalbody"):
            lst = getattr(holder, field, None)
            if isinstance(lst, list) and any(y is st for y in lst):
                lst[:] = [y for y in lst if y is not st] or [ast.Pass()]
        if isinstance(holder, ast.Try):
            for h in holder.handlers:
                if any(y is st for y in h.body):
                    h.body[:] = [y for y in h.body if y is not st] or [ast.Pass()]
        set_parents(fnode)
        n_done += 1
    return n_done


def inline_attr_aliases(repo, rebuild):
    changed = set()
    for rel, m in repo.modules.items():
        n = 0
        set_parents(m.tree)
        for f in [x for x in ast.walk(m.tree) if isinstance(x, _FUNC)]:
            p = getattr(f, "_parent", None)
            nested = False
            while p is not None:
                if isinstance(p, _FUNC):
                    nested = True
                    break
                p = getattr(p, "_parent", None)
            if not nested:
                n += _inline_attr_aliases_in_function(f)
        if n:
            ast.fix_missing_locations(m.tree)
            changed.add(rel)
    if changed:
        rebuild(repo, changed)
    return len(changed)


# ---------------------------------------------------------------------------------------------------------------------
# dispatch tables:  T = {k1: f1, k2: f2}; h = T.get(key); if h is None: <refuse>; h(args)   ->   if key == k1: f1(args) elif ... else: <refuse>


def _lower_dispatch_in_block(stmts, fnode):
    """One rewrite in this statement list (returns True if something changed)."""
    for i, st in enumerate(stmts):
        if not (isinstance(st, ast.Assign) and len(st.targets) == 1 and isinstance(st.targets[0], ast.Name) and isinstance(st.value, ast.Dict)):
            continue
        T = st.targets[0].id
        d = st.value
        if not d.keys or any(k is None or not isinstance(k, ast.Constant) for k in d.keys) or len(d.keys) > 16:
            continue
        if any(not (isinstance(v, ast.Name) or _attr_chain(v) is not None) for v in d.values):
            continue
        if i + 3 > len(stmts):
            continue
        look, j = stmts[i + 1], i + 1

        def get_call(a):
            """h, key  for  h = T.get(key) / T.get(key, None)"""
            if isinstance(a, ast.Assign) and len(a.targets) == 1 and isinstance(a.targets[0], ast.Name) and isinstance(a.value, ast.Call) and \
                    isinstance(a.value.func, ast.Attribute) and a.value.func.attr == "get" and isinstance(a.value.func.value, ast.Name) and a.value.func.value.id == T and \
                    not a.value.keywords and (len(a.value.args) == 1 or (len(a.value.args) == 2 and isinstance(a.value.args[1], ast.Constant) and a.value.args[1].value is None)):
                return a.targets[0].id, a.value.args[0]
            return None
        gc = get_call(look)
        if gc is None and isinstance(look, ast.Try) and len(look.body) == 1 and not look.orelse and not look.finalbody:
            gc = get_call(look.body[0])
            # handlers may only turn a failing look-up (unhashable key) into "not found"
            for h_ in look.handlers:
                if not (len(h_.body) == 1 and isinstance(h_.body[0], ast.Assign) and gc is not None and len(h_.body[0].targets) == 1 and
                        isinstance(h_.body[0].targets[0], ast.Name) and h_.body[0].targets[0].id == gc[0] and
                        isinstance(h_.body[0].value, ast.Constant) and h_.body[0].value.value is None):
                    gc = None
        if gc is None:
            continue
        h, key = gc
        if not isinstance(key, (ast.Name, ast.Attribute)):
            continue
        guard = stmts[j + 1] if j + 1 < len(stmts) else None
        use = stmts[j + 2] if j + 2 < len(stmts) else None
        if not (isinstance(guard, ast.If) and not guard.orelse and isinstance(guard.test, ast.Compare) and len(guard.test.ops) == 1 and
                isinstance(guard.test.ops[0], ast.Is) and isinstance(guard.test.left, ast.Name) and guard.test.left.id == h and
                isinstance(guard.test.comparators[0], ast.Constant) and guard.test.comparators[0].value is None and
                guard.body and isinstance(guard.body[-1], (ast.Raise, ast.Return))):
            continue
        call = None
        if isinstance(use, ast.Expr) and isinstance(use.value, ast.Call):
            call = use.value
        elif isinstance(use, (ast.Return, ast.Assign)) and isinstance(use.value, ast.Call):
            call = use.value
        if call is None or not (isinstance(call.func, ast.Name) and call.func.id == h):
            continue
        # T and h are used for nothing else
        n_T = sum(1 for x in ast.walk(fnode) if isinstance(x, ast.Name) and x.id == T)
        n_h = sum(1 for x in ast.walk(fnode) if isinstance(x, ast.Name) and x.id == h)
        n_h_expected = 3 + (len(look.handlers) if isinstance(look, ast.Try) else 0)
        if n_T != 2 or n_h != n_h_expected:
            continue
        chain = None
        for k, v in reversed(list(zip(d.keys, d.values))):
            one = clone(use)
            c2 = one.value
            c2.func = clone(v)
            test = ast.Compare(left=clone(key), ops=[ast.Eq()], comparators=[clone(k)])
            chain = ast.If(test=test, body=[one], orelse=[chain] if chain is not None else [clone(x) for x in guard.body])
        stmts[i:j + 3] = [ast.copy_location(chain, st)]
        return True
    return False


def lower_dispatch_tables(repo, rebuild):
    changed = set()
    for rel, m in repo.modules.items():
        n = 0
        for f in [x for x in ast.walk(m.tree) if isinstance(x, _FUNC)]:
            again = True
            while again:
                again = False
                for holder in ast.walk(f):
                    for field in ("body", "orelse", "finalbody"):
                        lst = getattr(holder, field, None)
                        if isinstance(lst, list) and lst and isinstance(lst[0], ast.stmt) and _lower_dispatch_in_block(lst, f):
                            again = True
                            n += 1
                            break
                    if again:
                        break
        if n:
            ast.fix_missing_locations(m.tree)
            changed.add(rel)
    if changed:
        rebuild(repo, changed)
    return len(changed)


# ---------------------------------------------------------------------------------------------------------------------
# tuple assignments and record dicts


def _lower_tuple_assigns(fnode):
    """a, b = x, y  ->  a = x; b = y   (no target occurs in a value);      a, b = seq  ->  a = seq[0]; b = seq[1]   (seq a plain name)."""
    n = 0
    for holder in ast.walk(fnode):
        for field in ("body", "orelse", "finalbody"):
            lst = getattr(holder, field, None)
            if not (isinstance(lst, list) and lst and isinstance(lst[0], ast.stmt)) or isinstance(holder, ast.ClassDef):
                continue
            i = 0
            while i < len(lst):
                st = lst[i]
                if isinstance(st, ast.Assign) and len(st.targets) == 1 and isinstance(st.targets[0], (ast.Tuple, ast.List)) and \
                        all(isinstance(t, ast.Name) for t in st.targets[0].elts) and len({t.id for t in st.targets[0].elts}) == len(st.targets[0].elts):
                    tg = st.targets[0].elts
                    names = {t.id for t in tg}
                    v = st.value
                    new = None
                    if isinstance(v, (ast.Tuple, ast.List)) and len(v.elts) == len(tg) and not any(isinstance(x, ast.Starred) for x in v.elts) and \
                            not any(isinstance(y, ast.Name) and y.id in names for x in v.elts for y in ast.walk(x)):
                        new = [ast.copy_location(ast.Assign(targets=[ast.Name(id=t.id, ctx=ast.Store())], value=x), st) for t, x in zip(tg, v.elts)]
                    elif isinstance(v, ast.Name) and v.id not in names:
                        new = [ast.copy_location(ast.Assign(targets=[ast.Name(id=t.id, ctx=ast.Store())],
                                                            value=ast.Subscript(value=ast.Name(id=v.id, ctx=ast.Load()), slice=ast.Constant(value=k), ctx=ast.Load())), st)
                               for k, t in enumerate(tg)]
                    if new is not None:
                        lst[i:i + 1] = new
                        i += len(new)
                        n += 1
                        continue
                i += 1
    return n


def _scalarize_records(fnode):
    """A local dict that is only ever used as R["<constant>"] (read or written) is a bundle of locals: R["k"] -> R__k."""
    n = 0
    cands = {}
    uses = {}
    for x in ast.walk(fnode):
        if isinstance(x, ast.Assign) and len(x.targets) == 1 and isinstance(x.targets[0], ast.Name) and isinstance(x.value, ast.Dict) and \
                all(isinstance(k, ast.Constant) and isinstance(k.value, str) and k.value.isidentifier() for k in x.value.keys):
            cands.setdefault(x.targets[0].id, []).append(x)
    if not cands:
        return 0
    set_parents(fnode)
    for x in ast.walk(fnode):
        if isinstance(x, ast.Name) and x.id in cands:
            uses.setdefault(x.id, []).append(x)
    for R, defs in cands.items():
        if len(defs) != 1:
            continue
        ok = True
        for u in uses.get(R, []):
            p = getattr(u, "_parent", None)
            if u is defs[0].targets[0]:
                continue
            if not (isinstance(p, ast.Subscript) and p.value is u and isinstance(p.slice, ast.Constant) and isinstance(p.slice.value, str) and p.slice.value.isidentifier()
                    and isinstance(p.ctx, (ast.Load, ast.Store))):
                ok = False
        if not ok or len(uses.get(R, [])) < 2:
            continue
        existing = {y.id for y in ast.walk(fnode) if isinstance(y, ast.Name)} | {a.arg for a in ast.walk(fnode) if isinstance(a, ast.arg)}

        def nm(k):
            return "%s__%s" % (R, k)
        if any(nm(k.value) in existing for k in defs[0].value.keys) or any(
                nm(getattr(u, "_parent").slice.value) in existing for u in uses[R] if u is not defs[0].targets[0]):
            continue

        class T(ast.NodeTransformer):
            def visit_Subscript(self, node):
                self.generic_visit(node)
                if isinstance(node.value, ast.Name) and node.value.id == R and isinstance(node.slice, ast.Constant):
                    return ast.copy_location(ast.Name(id=nm(node.slice.value), ctx=node.ctx), node)
                return node
        d = defs[0]
        init = [ast.copy_location(ast.Assign(targets=[ast.Name(id=nm(k.value), ctx=ast.Store())], value=v), d) for k, v in zip(d.value.keys, d.value.values)]
        T().visit(fnode)
        holder = getattr(d, "_parent", None)
        for field in ("body", "orelse", "finalbody"):
            lst = getattr(holder, field, None)
            if isinstance(lst, list):
                for i, y in enumerate(lst):
                    if y is d:
                        lst[i:i + 1] = init or ([ast.Pass()] if len(lst) == 1 else [])
                        break
        n += 1
        set_parents(fnode)
    return n


def lower_tuples_and_records(repo, rebuild):
    changed = set()
    for rel, m in repo.modules.items():
        n = 0
        for f in [x for x in ast.walk(m.tree) if isinstance(x, _FUNC)]:
            n += _lower_tuple_assigns(f)
            n += _scalarize_records(f)
        if n:
            ast.fix_missing_locations(m.tree)
            changed.add(rel)
    if changed:
        rebuild(repo, changed)
    return len(changed)


# ---------------------------------------------------------------------------------------------------------------------
# tail duplication: the common tail of an if / elif chain whose branches only select constants for it is moved back into the branches


def _chain_branches(ifst):
    """[(test or None, body list)] of an if / elif / else chain; the last entry has test None when there is an else."""
    out = []
    cur = ifst
    while True:
        out.append((cur.test, cur.body))
        if len(cur.orelse) == 1 and isinstance(cur.orelse[0], ast.If):
            cur = cur.orelse[0]
            continue
        if cur.orelse:
            out.append((None, cur.orelse))
        return out, bool(cur.orelse)


def _falls_through(body):
    return not (body and isinstance(body[-1], (ast.Raise, ast.Return, ast.Continue, ast.Break)))


def _selector_value(v, fn_stored):
    if isinstance(v, ast.Constant):
        return True
    d = dotted(v)
    return d is not None and d.split(".")[0] not in fn_stored and d.split(".")[0] not in ("self", "cls")


def _leaves(body):
    """The innermost statement lists in which control reaches the end of `body` (through trailing if / elif / else chains with an else)."""
    if not _falls_through(body):
        return []
    if body and isinstance(body[-1], ast.If):
        branches, has_else = _chain_branches(body[-1])
        if has_else:
            out = []
            for _t, b in branches:
                out += _leaves(b)
            return out
    return [body]


def _last_assign(leaf, v):
    xs = [s_ for s_ in leaf if isinstance(s_, ast.Assign) and len(s_.targets) == 1 and isinstance(s_.targets[0], ast.Name) and s_.targets[0].id == v]
    return xs[-1] if xs else None


def _is_none_test(test, v):
    return isinstance(test, ast.Compare) and len(test.ops) == 1 and isinstance(test.ops[0], (ast.Is, ast.IsNot)) and isinstance(test.left, ast.Name) and \
        test.left.id == v and isinstance(test.comparators[0], ast.Constant) and test.comparators[0].value is None


def _simple_display(v, fn_stored_later):
    return isinstance(v, (ast.Tuple, ast.List)) and all(isinstance(e, ast.Constant) or (isinstance(e, ast.Name) and e.id not in fn_stored_later) for e in v.elts)


class _FoldNoneTests(ast.NodeTransformer):
    """`None is None`, `(a, b) is None` ... and the ifs they decide."""

    def __init__(self, nonnull=()):
        self.nonnull = set(nonnull)

    def visit_If(self, node):
        self.generic_visit(node)
        t = node.test
        neg = False
        while isinstance(t, ast.UnaryOp) and isinstance(t.op, ast.Not):
            t, neg = t.operand, not neg
        if isinstance(t, ast.Constant) and (t.value is True or t.value is False):
            # a selected truth value put where it is tested (the branches returned True / False to their caller's `if`)
            kept = (node.body if (t.value is not neg) else node.orelse) or [ast.copy_location(ast.Pass(), node)]
            for k_, x in enumerate(kept):
                if isinstance(x, (ast.Return, ast.Raise, ast.Continue, ast.Break)):
                    kept = kept[:k_ + 1]
                    break
            return kept
        t = node.test
        if isinstance(t, ast.Compare) and len(t.ops) == 1 and isinstance(t.ops[0], (ast.Is, ast.IsNot)) and isinstance(t.comparators[0], ast.Constant) and \
                t.comparators[0].value is None:
            val = None
            if isinstance(t.left, ast.Constant):
                val = t.left.value is None
            elif isinstance(t.left, (ast.Tuple, ast.List, ast.Dict, ast.Set)):
                val = False
            elif isinstance(t.left, ast.Name) and t.left.id in self.nonnull:
                val = False
            if val is not None:
                if isinstance(t.ops[0], ast.IsNot):
                    val = not val
                return (node.body if val else node.orelse) or [ast.copy_location(ast.Pass(), node)]
        return node

    def visit_FunctionDef(self, node):
        return node
    visit_AsyncFunctionDef = visit_Lambda = visit_FunctionDef


def _tail_duplicate_block(block, fnode, fn_stored, is_ctor=lambda call: False):
    n = 0
    for i, st in enumerate(block):
        if not isinstance(st, ast.If) or i + 1 >= len(block):
            continue
        branches, has_else = _chain_branches(st)
        if not has_else or len(branches) < 2:
            continue
        live = []
        for _t, b in branches:
            live += _leaves(b)
        if len(live) < 2:
            continue
        tail = block[i + 1:]
        # names every leaf assigns at its top level ...
        cands = None
        for b in live:
            names = {s_.targets[0].id for s_ in b if isinstance(s_, ast.Assign) and len(s_.targets) == 1 and isinstance(s_.targets[0], ast.Name)}
            cands = names if cands is None else cands & names
        sel = set()
        for v in sorted(cands or ()):
            vals, noneness = set(), set()
            for b in live:
                last = _last_assign(b, v)
                if _selector_value(last.value, fn_stored):
                    vals.add(unparse(last.value))
                if isinstance(last.value, ast.Constant) and last.value.value is None:
                    noneness.add("none")
                elif isinstance(last.value, (ast.Tuple, ast.List, ast.Dict)) or (isinstance(last.value, ast.Call) and is_ctor(last.value)):
                    noneness.add("object")
                else:
                    noneness.add("?")
            # ... to at least two different constants, or to None here and to a display there while the tail starts by asking which
            if len(vals) >= 2:
                sel.add(v)
            elif noneness == {"none", "object"} and isinstance(tail[0], ast.If) and _is_none_test(tail[0].test, v):
                sel.add(v)
            elif isinstance(tail[0], ast.For) and isinstance(tail[0].iter, ast.Name) and tail[0].iter.id == v and \
                    all(b and _last_assign(b, v) is b[-1] for b in live) and \
                    sum(1 for x in ast.walk(fnode) if isinstance(x, ast.Name) and x.id == v and isinstance(x.ctx, ast.Load)) == 1:
                # what the loop that follows ranges over is chosen by the branches (and used for nothing else)
                sel.add(v)
        if not sel or len(tail) > 30 or any(isinstance(x, _FUNC + (ast.ClassDef,)) for t in tail for x in ast.walk(t)):
            continue
        if not any(isinstance(x, ast.Name) and x.id in sel and isinstance(x.ctx, ast.Load) for t in tail for x in ast.walk(t)):
            continue
        for b in live:
            b.extend(clone(t) for t in tail)
            # the selected values are put where they are used
            for v in sorted(sel):
                idxs = [k for k, s_ in enumerate(b) if isinstance(s_, ast.Assign) and len(s_.targets) == 1 and isinstance(s_.targets[0], ast.Name) and s_.targets[0].id == v]
                if len(idxs) != 1:
                    continue
                k = idxs[0]
                later_stored = {x.id for t in b[k + 1:] for x in ast.walk(t) if isinstance(x, ast.Name) and isinstance(x.ctx, (ast.Store, ast.Del))}
                if v in later_stored:
                    continue
                val = b[k].value
                if isinstance(val, ast.Call) and is_ctor(val):
                    # an object: `v is None` is decided, the object itself stays where it is built
                    fz = _FoldNoneTests(nonnull={v})
                    rest_ = []
                    for t in b[k + 1:]:
                        r_ = fz.visit(t)
                        rest_.extend(r_ if isinstance(r_, list) else [r_])
                    b[k + 1:] = rest_
                    continue
                if not (_selector_value(val, fn_stored) or _simple_display(val, later_stored)):
                    continue
                sub = _SubstName({v: val})
                b[k + 1:] = [sub.visit(t) for t in b[k + 1:]]
                b[k]._selector_assign = v
            folded = []
            for t in b:
                r = _FoldNoneTests().visit(t)
                folded.extend(r if isinstance(r, list) else [r])
            # nothing runs after a return / raise; a pass among other statements says nothing
            for k_, t in enumerate(folded):
                if isinstance(t, (ast.Return, ast.Raise, ast.Continue, ast.Break)):
                    folded = folded[:k_ + 1]
                    break
            if len(folded) > 1:
                folded = [t for t in folded if not isinstance(t, ast.Pass)] or folded[:1]
            b[:] = folded or [ast.Pass()]
        del block[i + 1:]
        # a selector that nothing reads any more needs no assignment
        for v in sorted(sel):
            if not any(isinstance(x, ast.Name) and x.id == v and isinstance(x.ctx, ast.Load) for x in ast.walk(fnode)):
                for b in live:
                    b[:] = [t for t in b if getattr(t, "_selector_assign", None) != v] or [ast.Pass()]
        n += 1
        break
    return n


def tail_duplication(repo, rebuild, only_rels=None):
    changed = set()
    for rel, m in repo.modules.items():
        if only_rels is not None and rel not in only_rels:
            continue
        n = 0

        def is_ctor(call, m=m):
            d = dotted(call.func)
            if d is None:
                return False
            if d in m.classes:
                return True
            tgt = m.imports.get(d)
            if tgt and "." in tgt:
                m2 = repo.modules.get(tgt.rsplit(".", 1)[0].replace(".", "/") + ".py")
                return m2 is not None and tgt.rsplit(".", 1)[1] in m2.classes
            return False
        for f in [x for x in ast.walk(m.tree) if isinstance(x, _FUNC)]:
            fn_stored = _stored_names([f]) | {a.arg for a in ast.walk(f.args) if isinstance(a, ast.arg)}
            for _round in range(6):
                k = 0
                for holder in list(ast.walk(f)):
                    for field in ("body", "orelse", "finalbody"):
                        blk = getattr(holder, field, None)
                        if isinstance(blk, list) and blk and isinstance(blk[0], ast.stmt):
                            k += _tail_duplicate_block(blk, f, fn_stored, is_ctor)
                n += k
                if not k:
                    break
        if n:
            ast.fix_missing_locations(m.tree)
            changed.add(rel)
    if changed:
        rebuild(repo, changed)
    return len(changed)


# ---------------------------------------------------------------------------------------------------------------------
# value objects: a local built from an unlisted NamedTuple class and used only through its fields, properties and small methods


def _namedtuple_fields(cnode):
    if not any((dotted(b) or "").split(".")[-1] == "NamedTuple" for b in cnode.bases) or cnode.keywords or cnode.decorator_list:
        return None
    fields = []
    for st in cnode.body:
        if isinstance(st, ast.AnnAssign) and isinstance(st.target, ast.Name):
            if st.value is not None:
                return None     # defaults: keep it simple
            fields.append(st.target.id)
        elif isinstance(st, _FUNC):
            if st.name in ("__new__", "__init__", "__getattr__", "__getattribute__"):
                return None
        elif isinstance(st, ast.Expr) and isinstance(st.value, ast.Constant):
            continue
        elif isinstance(st, ast.Pass):
            continue
        else:
            return None
    return fields


def _returns_as_expr(stmts):
    """The value a body of `if T: return A` ... `return B` hands back, as one expression (or None)."""
    stmts = _docless(stmts)
    if not stmts:
        return None
    st = stmts[0]
    if isinstance(st, ast.Return) and st.value is not None and len(stmts) == 1:
        return st.value
    if isinstance(st, ast.If) and not st.orelse and len(st.body) == 1 and isinstance(st.body[0], ast.Return) and st.body[0].value is not None:
        rest = _returns_as_expr(stmts[1:])
        if rest is None:
            return None
        a, b = st.body[0].value, rest
        tv = lambda e: isinstance(e, ast.Constant) and isinstance(e.value, bool)
        if tv(a) and tv(b) and a.value != b.value:
            # bool(T) is `not not T`; where it ends up as the test of an if / while the double negation is dropped again
            neg = ast.UnaryOp(op=ast.Not(), operand=st.test)
            return ast.UnaryOp(op=ast.Not(), operand=neg) if a.value else neg
        return ast.IfExp(test=st.test, body=a, orelse=b)
    if isinstance(st, ast.If) and st.orelse:
        a, b = _returns_as_expr(st.body), _returns_as_expr(st.orelse)
        if a is None or b is None or len(stmts) != 1:
            return None
        return ast.IfExp(test=st.test, body=a, orelse=b)
    return None


def _scalarize_value_objects_in(fnode, module, repo, known):
    n = 0
    for st in [x for x in ast.walk(fnode) if isinstance(x, ast.Assign)]:
        if not (len(st.targets) == 1 and isinstance(st.targets[0], ast.Name) and isinstance(st.value, ast.Call)):
            continue
        x = st.targets[0].id
        d = dotted(st.value.func)
        if d is None:
            continue
        # the class: defined here or imported from a module of the repository, and not one of the reference classes
        ci = module.classes.get(d)
        if ci is None and d in module.imports:
            tgt = module.imports[d]
            if "." in tgt:
                m2 = repo.modules.get(tgt.rsplit(".", 1)[0].replace(".", "/") + ".py")
                ci = m2.classes.get(tgt.rsplit(".", 1)[1]) if m2 is not None else None
        if ci is None or ("%s::%s" % (ci.module.rel, ci.name)) in known.get("class_attrs", {}):
            continue
        fields = _namedtuple_fields(ci.node)
        if not fields:
            continue
        call = st.value
        if any(isinstance(a, ast.Starred) for a in call.args) or any(k.arg is None for k in call.keywords) or len(call.args) > len(fields):
            continue
        vals = dict(zip(fields, call.args))
        ok = True
        for k in call.keywords:
            if k.arg not in fields or k.arg in vals:
                ok = False
            vals[k.arg] = k.value
        if not ok or set(vals) != set(fields):
            continue
        set_parents(fnode)
        stores = [z for z in ast.walk(fnode) if isinstance(z, ast.Name) and z.id == x and isinstance(z.ctx, (ast.Store, ast.Del))]
        # besides the construction only dead stores `x = None` directly before leaving (what an expanded `return None` leaves behind)
        dead = []
        for z in stores:
            a_ = getattr(z, "_parent", None)
            if a_ is st:
                continue
            h_ = getattr(a_, "_parent", None)
            okd = False
            if isinstance(a_, ast.Assign) and len(a_.targets) == 1 and isinstance(a_.value, ast.Constant) and a_.value.value is None:
                for field_d in ("body", "orelse", "finalbody"):
                    blk_d = getattr(h_, field_d, None)
                    if isinstance(blk_d, list) and a_ in blk_d:
                        j_ = blk_d.index(a_)
                        if j_ + 1 < len(blk_d) and isinstance(blk_d[j_ + 1], (ast.Continue, ast.Break, ast.Return, ast.Raise)) and \
                                not any(isinstance(y, ast.Name) and y.id == x for y in ast.walk(blk_d[j_ + 1])):
                            okd = True
                            dead.append((blk_d, a_))
            if not okd:
                dead = None
                break
        if dead is None:
            continue
        if dead:
            # ... and then every use of x follows the construction in its own block (no path from such a store to a use avoids the construction)
            holder0 = getattr(st, "_parent", None)
            blk0 = next((getattr(holder0, f_) for f_ in ("body", "orelse", "finalbody") if isinstance(getattr(holder0, f_, None), list) and st in getattr(holder0, f_)), None)
            if blk0 is None:
                continue
            after = {id(y) for t_ in blk0[blk0.index(st) + 1:] for y in ast.walk(t_)}
            if any(isinstance(y, ast.Name) and y.id == x and isinstance(y.ctx, ast.Load) and id(y) not in after for y in ast.walk(fnode)):
                continue
        # t1, .., tn = x   reads the fields in order
        for u in [z for z in ast.walk(fnode) if isinstance(z, ast.Assign) and isinstance(z.value, ast.Name) and z.value.id == x and len(z.targets) == 1 and
                  isinstance(z.targets[0], (ast.Tuple, ast.List)) and len(z.targets[0].elts) == len(fields) and all(isinstance(e, ast.Name) for e in z.targets[0].elts)]:
            holder_u = getattr(u, "_parent", None)
            for field_u in ("body", "orelse", "finalbody"):
                blk_u = getattr(holder_u, field_u, None)
                if isinstance(blk_u, list) and u in blk_u:
                    iu = blk_u.index(u)
                    blk_u[iu:iu + 1] = [ast.copy_location(ast.Assign(targets=[ast.Name(id=e.id, ctx=ast.Store())],
                                                                     value=ast.Attribute(value=ast.Name(id=x, ctx=ast.Load()), attr=f_, ctx=ast.Load())), u)
                                        for e, f_ in zip(u.targets[0].elts, fields)]
        ast.fix_missing_locations(fnode)
        set_parents(fnode)
        loads = [z for z in ast.walk(fnode) if isinstance(z, ast.Name) and z.id == x and isinstance(z.ctx, ast.Load)]
        methods = {f.name: f for f in ci.node.body if isinstance(f, ast.FunctionDef)}

        def member(attr, args, depth=0):
            """expression for x.attr (args None) or x.attr(*args)"""
            if depth > 4:
                return None
            if attr in fields and args is None:
                return ast.Name(id="%s__%s" % (x, attr), ctx=ast.Load())
            f = methods.get(attr)
            if f is None or f.args.vararg or f.args.kwarg or f.args.kwonlyargs or f.args.posonlyargs or f.args.defaults:
                return None
            decs = [unparse(dd) for dd in f.decorator_list]
            params = [a.arg for a in f.args.args]
            if not params:
                return None
            if args is None:
                if decs != ["property"] or len(params) != 1:
                    return None
                args = []
            elif decs or len(args) != len(params) - 1 or not all(_simple(a) for a in args):
                return None
            e = _returns_as_expr(f.body)
            if e is None:
                return None
            e = clone(e)
            selfp = params[0]
            bind = dict(zip(params[1:], args))
            bad = [False]

            class S(ast.NodeTransformer):
                def visit_Attribute(self, node):
                    if isinstance(node.value, ast.Name) and node.value.id == selfp and isinstance(node.ctx, ast.Load):
                        r = member(node.attr, None, depth + 1)
                        if r is None:
                            bad[0] = True
                            return node
                        return r
                    self.generic_visit(node)
                    return node

                def visit_Call(self, node):
                    if isinstance(node.func, ast.Attribute) and isinstance(node.func.value, ast.Name) and node.func.value.id == selfp and node.func.attr in methods \
                            and node.func.attr not in fields:
                        bad[0] = True       # (a method calling a method: not needed so far)
                        return node
                    self.generic_visit(node)
                    return node

                def visit_Name(self, node):
                    if node.id == selfp:
                        bad[0] = True
                    if node.id in bind and isinstance(node.ctx, ast.Load):
                        return clone(bind[node.id])
                    return node
            e = S().visit(e)
            return None if bad[0] else e

        repl = []
        for z in loads:
            p = getattr(z, "_parent", None)
            is_sub = isinstance(p, ast.Subscript) and p.value is z and isinstance(p.ctx, ast.Load) and isinstance(p.slice, ast.Constant)
            if not is_sub and not (isinstance(p, ast.Attribute) and p.value is z and isinstance(p.ctx, ast.Load)):
                ok = False
                break
            if isinstance(p, ast.Subscript) and p.value is z and isinstance(p.ctx, ast.Load) and isinstance(p.slice, ast.Constant) and \
                    isinstance(p.slice.value, int) and not isinstance(p.slice.value, bool) and 0 <= p.slice.value < len(fields):
                repl.append((p, ast.Name(id="%s__%s" % (x, fields[p.slice.value]), ctx=ast.Load())))
                continue
            if is_sub:
                ok = False
                break
            pp = getattr(p, "_parent", None)
            if isinstance(pp, ast.Call) and pp.func is p and p.attr not in fields:
                if pp.keywords or any(isinstance(a, ast.Starred) for a in pp.args):
                    ok = False
                    break
                e = member(p.attr, list(pp.args))
                whole = pp
            else:
                e = member(p.attr, None)
                whole = p
            if e is None:
                ok = False
                break
            repl.append((whole, e))
        if not ok:
            continue
        mapping = {id(w): e for w, e in repl}
        for blk_d, a_ in dead:
            blk_d.remove(a_)

        class R(ast.NodeTransformer):
            def visit(self, node):
                if id(node) in mapping:
                    return ast.copy_location(mapping[id(node)], node)
                return super().visit(node)
        R().visit(fnode)
        # `not not T` as the test of an if / while is T
        for z in ast.walk(fnode):
            if isinstance(z, (ast.If, ast.While)):
                while isinstance(z.test, ast.UnaryOp) and isinstance(z.test.op, ast.Not) and isinstance(z.test.operand, ast.UnaryOp) and isinstance(z.test.operand.op, ast.Not):
                    z.test = z.test.operand.operand
        # the construction becomes one assignment per field (arguments are evaluated in the order they were written)
        order = [f for f in fields if f in dict(zip(fields, call.args))] + [k.arg for k in call.keywords]
        new = [ast.copy_location(ast.Assign(targets=[ast.Name(id="%s__%s" % (x, f), ctx=ast.Store())], value=vals[f]), st) for f in order]
        holder = getattr(st, "_parent", None)
        done = False
        for field in ("body", "orelse", "finalbody"):
            blk = getattr(holder, field, None)
            if isinstance(blk, list) and st in blk:
                i = blk.index(st)
                blk[i:i + 1] = new
                done = True
        if not done:
            continue
        ast.fix_missing_locations(fnode)
        n += 1
    return n


def scalarize_value_objects(repo, known, rebuild):
    changed = set()
    for rel, m in repo.modules.items():
        n = 0
        for f in [x for x in ast.walk(m.tree) if isinstance(x, _FUNC)]:
            if any(isinstance(z, ast.Call) for z in ast.walk(f)):
                n += _scalarize_value_objects_in(f, m, repo, known)
        if n:
            ast.fix_missing_locations(m.tree)
            changed.add(rel)
    if changed:
        rebuild(repo, changed)
    return len(changed)


def _plain_record_class(node):
    """-> (params, [(field, expr)], {method: (params, expr)}) for a class that is nothing but a record with small accessors:
    no bases, `__init__` made of `self.f = E` only, every other method `return E`; else None."""
    if node.bases or node.keywords or node.decorator_list:
        return None
    init, methods = None, {}
    for st in node.body:
        if isinstance(st, ast.Pass) or (isinstance(st, ast.Expr) and isinstance(st.value, ast.Constant)):
            continue
        if isinstance(st, ast.Assign) and len(st.targets) == 1 and isinstance(st.targets[0], ast.Name) and st.targets[0].id == "__slots__":
            continue
        if isinstance(st, ast.FunctionDef) and not st.decorator_list:
            a = st.args
            if a.vararg or a.kwarg or a.kwonlyargs or a.posonlyargs or a.defaults or not a.args:
                return None
            body = _docless(st.body)
            if st.name == "__init__":
                fields = []
                for b in body:
                    if isinstance(b, (ast.Assign, ast.AnnAssign)) and b.value is not None:
                        t = b.targets[0] if isinstance(b, ast.Assign) and len(b.targets) == 1 else (b.target if isinstance(b, ast.AnnAssign) else None)
                        if isinstance(t, ast.Attribute) and isinstance(t.value, ast.Name) and t.value.id == a.args[0].arg and \
                                not any(isinstance(x, ast.Name) and x.id == a.args[0].arg for x in ast.walk(b.value)):
                            fields.append((t.attr, b.value))
                            continue
                    return None
                init = ([x.arg for x in a.args], fields)
            elif st.name.startswith("__") and st.name.endswith("__"):
                return None
            else:
                if not (len(body) == 1 and isinstance(body[0], ast.Return) and body[0].value is not None):
                    return None
                methods[st.name] = ([x.arg for x in a.args], body[0].value)
            continue
        return None
    if init is None or len({f for f, _ in init[1]}) != len(init[1]):
        return None
    return init[0], init[1], methods


def scalarize_plain_records(repo, known, rebuild):
    """A local `obj = C(..)` of an unlisted record class (see `_plain_record_class`) that is used only through `obj.field` and
    `obj.method(..)` is taken apart: one local per field (`obj__field`), the accessors' expressions put where they are called."""
    changed = set()
    for rel, m in repo.modules.items():
        if not rel.startswith(("schemes/", "toolkit/", "frontend/", "data_persistence/")):
            continue
        recs = {}
        for cn, ci in m.classes.items():
            if ("%s::%s" % (rel, cn)) in known.get("class_attrs", {}):
                continue
            r = _plain_record_class(ci.node)
            if r is not None:
                recs[cn] = r
        if not recs:
            continue
        n = 0
        for f in [x for x in ast.walk(m.tree) if isinstance(x, _FUNC)]:
            for i, st in enumerate(list(f.body)):
                if not (isinstance(st, ast.Assign) and len(st.targets) == 1 and isinstance(st.targets[0], ast.Name) and isinstance(st.value, ast.Call)
                        and isinstance(st.value.func, ast.Name) and st.value.func.id in recs and not st.value.keywords):
                    continue
                obj = st.targets[0].id
                params, fields, methods = recs[st.value.func.id]
                args = st.value.args
                if len(args) != len(params) - 1 or not all(_simple(a) for a in args):
                    continue
                stores = [x for x in ast.walk(f) if isinstance(x, ast.Name) and x.id == obj and isinstance(x.ctx, (ast.Store, ast.Del))]
                if len(stores) != 1 or any(isinstance(a, ast.arg) and a.arg == obj for a in ast.walk(f.args)):
                    continue
                parents = {}
                for p_ in ast.walk(f):
                    for ch in ast.iter_child_nodes(p_):
                        parents[id(ch)] = p_
                fnames = {fl for fl, _ in fields}
                ok = True
                for x in ast.walk(f):
                    if isinstance(x, ast.Name) and x.id == obj and isinstance(x.ctx, ast.Load):
                        par = parents.get(id(x))
                        if not (isinstance(par, ast.Attribute) and par.value is x):
                            ok = False
                            break
                        if par.attr in fnames:
                            continue
                        gp = parents.get(id(par))
                        if par.attr in methods and isinstance(gp, ast.Call) and gp.func is par and not gp.keywords and \
                                len(gp.args) == len(methods[par.attr][0]) - 1 and all(_simple(a) for a in gp.args):
                            continue
                        ok = False
                        break
                if not ok or any(isinstance(x, _FUNC + (ast.Lambda, ast.ClassDef)) and x is not f and any(isinstance(y, ast.Name) and y.id == obj for y in ast.walk(x)) for x in ast.walk(f)):
                    continue
                local = lambda fl: "%s__%s" % (obj, fl.lstrip("_"))  # noqa: E731
                taken = {x.id for x in ast.walk(f) if isinstance(x, ast.Name)}
                if any(local(fl) in taken for fl in fnames) or len({local(fl) for fl in fnames}) != len(fnames):
                    continue

                class T(ast.NodeTransformer):
                    def visit_Call(self, node):
                        if isinstance(node.func, ast.Attribute) and isinstance(node.func.value, ast.Name) and node.func.value.id == obj and node.func.attr in methods:
                            mp, me = methods[node.func.attr]
                            mapping = {p: self.visit(a) for p, a in zip(mp[1:], node.args)}
                            e = _SubstName(mapping).visit(clone(me))
                            e = _SelfFields(mp[0], local).visit(e)
                            return ast.copy_location(e, node)
                        self.generic_visit(node)
                        return node

                    def visit_Attribute(self, node):
                        if isinstance(node.value, ast.Name) and node.value.id == obj and node.attr in fnames:
                            return ast.copy_location(ast.Name(id=local(node.attr), ctx=node.ctx), node)
                        self.generic_visit(node)
                        return node
                inits = []
                mapping = dict(zip(params[1:], args))
                for fl, e in fields:
                    a_ = ast.Assign(targets=[ast.Name(id=local(fl), ctx=ast.Store())], value=_SubstName(mapping).visit(clone(e)))
                    inits.append(ast.copy_location(a_, st))
                rest = [T().visit(x) for x in f.body[i + 1:]]
                f.body[i:] = inits + rest
                n += 1
                break
        if n:
            ast.fix_missing_locations(m.tree)
            changed.add(rel)
    if changed:
        rebuild(repo, changed)
    return len(changed)


class _SelfFields(ast.NodeTransformer):
    def __init__(self, selfname, local):
        self.s, self.local = selfname, local

    def visit_Attribute(self, node):
        if isinstance(node.value, ast.Name) and node.value.id == self.s:
            return ast.copy_location(ast.Name(id=self.local(node.attr), ctx=node.ctx), node)
        self.generic_visit(node)
        return node


def _constants_only_class(node):
    if node.bases or node.keywords or node.decorator_list:
        return False
    for st in node.body:
        if isinstance(st, ast.Pass) or (isinstance(st, ast.Expr) and isinstance(st.value, ast.Constant)):
            continue
        if isinstance(st, ast.Assign) and all(isinstance(t, ast.Name) for t in st.targets) and isinstance(st.value, ast.Constant):
            continue
        if isinstance(st, ast.AnnAssign) and isinstance(st.target, ast.Name) and isinstance(st.value, ast.Constant):
            continue
        return False
    return True


def moved_definitions_normal_form(repo, known, rebuild):
    """A class of named constants that the reference lists in module M, and that M now imports under the same name from another module of the
    repository (where it is new), is put back: a copy of the definition replaces the import.  Only classes whose body is constant assignments
    qualify - for those, one shared class object and two copies cannot be told apart."""
    notes, changed = [], set()
    for ck in known.get("class_attrs", {}):
        rel, cn = ck.split("::", 1)
        m = repo.modules.get(rel)
        if m is None or cn in m.classes:
            continue
        tgt = m.imports.get(cn)
        if not tgt or "." not in tgt or tgt.rsplit(".", 1)[1] != cn:
            continue
        src_rel = tgt.rsplit(".", 1)[0].replace(".", "/") + ".py"
        m2 = repo.modules.get(src_rel) or repo.modules.get(tgt.rsplit(".", 1)[0].replace(".", "/") + "/__init__.py")
        if m2 is None or cn not in m2.classes or ("%s::%s" % (m2.rel, cn)) in known.get("class_attrs", {}):
            continue
        node = m2.classes[cn].node
        if not _constants_only_class(node):
            continue
        # drop the import of the name, put a copy of the class after the last top-level import
        last_imp = -1
        for i, st in enumerate(list(m.tree.body)):
            if isinstance(st, (ast.Import, ast.ImportFrom)):
                last_imp = i
        for st in list(m.tree.body):
            if isinstance(st, ast.ImportFrom):
                keep = [a for a in st.names if (a.asname or a.name) != cn]
                if len(keep) != len(st.names):
                    if keep:
                        st.names = keep
                    else:
                        idx = m.tree.body.index(st)
                        m.tree.body.remove(st)
                        if idx <= last_imp:
                            last_imp -= 1
        m.tree.body.insert(last_imp + 1, copy.deepcopy(node))
        ast.fix_missing_locations(m.tree)
        changed.add(rel)
        notes.append("constants class %s, moved to %s and imported from there, put back into %s" % (cn, m2.rel, rel))
    if changed:
        rebuild(repo, changed)
    return notes


def normalize(repo, rebuild):
    """Expand unknown helpers/constants in `repo` (a raw Repo).  `rebuild(repo, rels)` re-indexes the changed modules.

    Returns a list of human-readable notes describing what was expanded (empty on the pinned tree)."""
    known = load_known()
    notes = []
    changed = set()
    notes += moved_definitions_normal_form(repo, known, rebuild)
    notes += rename_normal_form(repo, known, rebuild)
    notes += import_normal_form(repo, known, rebuild)

    # -- constants ----------------------------------------------------------------------------------------------------
    consts = unknown_constants(repo, known)
    if consts:
        for rel, m in repo.modules.items():
            cs = _ConstSubst(consts.get(rel, {}), repo, m, {r: c for r, c in consts.items() if r != rel})
            cs.visit(m.tree)
            if cs.count:
                changed.add(rel)
        for rel, c in consts.items():
            notes.append("module constant(s) %s of %s propagated into their uses" % (", ".join(sorted(c)), rel))
    ccs = _class_constants(repo, known)
    for (rel, cn), c in ccs.items():
        m = repo.modules[rel]
        s = _ClassConstSubst(cn, c)
        s.visit(m.classes[cn].node)
        if s.count:
            changed.add(rel)
            notes.append("class constant(s) %s of %s::%s propagated into their uses" % (", ".join(sorted(c)), rel, cn))
    if changed:
        rebuild(repo, changed)

    if lower_dispatch_tables(repo, rebuild):
        notes.append("dispatch table(s) over constant keys lowered to if / elif chains")
    # temporaries first: a helper of the form `t = E; return f(t)` is a single expression afterwards and can then be expanded even where
    # statements cannot be placed (inside a comprehension, in the second operand of `and`)
    kf0 = set(known["functions"])
    inline_adjacent_temps(repo, rebuild, only_keys={f.key for m in repo.modules.values() for f in m.all_functions() if f.key not in kf0})
    # -- helpers ------------------------------------------------------------------------------------------------------
    kf = set(known["functions"])
    for _round in range(4):
        unknown = {}
        for rel, m in repo.modules.items():
            if rel not in known["globals"]:
                # a module the reference does not have: its module-level functions are unlisted helpers like any other
                # (classes of such a module are whole new classes, see below)
                if not rel.startswith(("schemes/", "toolkit/", "frontend/", "data_persistence/")):
                    continue
                for fi in m.functions.values():
                    if eligible(fi):
                        unknown[fi.key] = fi
                continue
            for fi in m.all_functions():
                if fi.key not in kf and eligible(fi):
                    if fi.cls is not None and ("%s::%s" % (rel, fi.cls.name)) not in known["class_attrs"]:
                        continue  # a whole new class
                    unknown[fi.key] = fi
        for k in _recursive(repo, unknown):
            unknown.pop(k, None)
        if not unknown:
            break
        ex = Expander(repo, unknown)
        round_changed = set()
        for rel, m in repo.modules.items():
            for fi in list(m.functions.values()) + [f for c in m.classes.values() for f in c.methods.values()]:
                # (nested functions are rewritten as part of their outermost function)
                if ex.expand_function(fi):
                    round_changed.add(rel)
        if not ex.log:
            break
        for rel, need in ex.imports_needed.items():
            if rel not in round_changed:
                continue
            m = repo.modules[rel]
            used = {x.id for x in ast.walk(m.tree) if isinstance(x, ast.Name)}
            new_imports = []
            for local, tgt in sorted(need.items()):
                if local not in used or local in m.imports:
                    continue
                if "." in tgt:
                    mod_, last = tgt.rsplit(".", 1)
                    new_imports.append(ast.ImportFrom(module=mod_, names=[ast.alias(name=last, asname=local if local != last else None)], level=0))
                else:
                    new_imports.append(ast.Import(names=[ast.alias(name=tgt, asname=local if local != tgt else None)]))
            pos = 1 if m.tree.body and isinstance(m.tree.body[0], ast.Expr) and isinstance(getattr(m.tree.body[0], "value", None), ast.Constant) else 0
            m.tree.body[pos:pos] = new_imports
        for rel in round_changed:
            ast.fix_missing_locations(repo.modules[rel].tree)
        rebuild(repo, round_changed)
        changed |= round_changed
        by = {}
        for caller, callee, mode in ex.log:
            by.setdefault(callee, []).append("%s(%s)" % (caller.split("::")[1], mode))
        for callee, sites in sorted(by.items()):
            notes.append("unlisted helper %s expanded at %s" % (callee, ", ".join(sorted(set(sites)))))
        # drop definitions that are no longer referenced
        dropped = set()
        current = {}
        for m in repo.modules.values():
            for f in m.all_functions():
                current[f.key] = f
        for key in unknown:
            fi2 = current.get(key)
            if fi2 is None:
                continue
            if not _still_referenced(repo, fi2):
                _remove_def(fi2.module.tree, fi2.node)
                dropped.add(fi2.module.rel)
        if dropped:
            for rel in dropped:
                ast.fix_missing_locations(repo.modules[rel].tree)
            rebuild(repo, dropped)
    if scalarize_value_objects(repo, known, rebuild):
        notes.append("local value object(s) of an unlisted NamedTuple class taken apart into one local per field")
    if scalarize_plain_records(repo, known, rebuild):
        notes.append("local object(s) of an unlisted record class (fields set in __init__, accessors returning one expression) taken apart into one local per field")
    coalesce_inlined_copies(repo, rebuild)
    if tail_duplication(repo, rebuild):
        notes.append("common tail of an if / elif chain whose branches select constants for it moved back into the branches")
        if scalarize_value_objects(repo, known, rebuild):
            notes.append("local value object(s) of an unlisted NamedTuple class taken apart into one local per field")
        coalesce_inlined_copies(repo, rebuild)
    fold_literals(repo, rebuild)
    lower_tuples_and_records(repo, rebuild)
    coalesce_inlined_copies(repo, rebuild)
    inline_attr_aliases(repo, rebuild)
    repo.temps_inlined = inline_adjacent_temps(repo, rebuild)
    if lower_takewhile(repo, rebuild):
        notes.append("list(itertools.takewhile(P, (E for v in IT))) written as the loop it stands for")
    if fold_literals(repo, rebuild):
        lower_tuples_and_records(repo, rebuild)
        repo.temps_inlined += inline_adjacent_temps(repo, rebuild)
    return notes


if __name__ == "__main__":  # development aid: python -m sa.normalize ROOT REL  -> normal form of one module + notes
    import sys
    from .model import load_repo
    _repo = load_repo(sys.argv[1])
    for _n in _repo.normal_notes:
        print("#", _n)
    if len(sys.argv) > 2:
        print(ast.unparse(_repo.modules[sys.argv[2]].tree))
