"""E3b - queries over derivation terms (terms.py) of one function: what is passed where, what is stored, what is established.

Rules about the front end are phrased as patterns over the *derivations* of call arguments, stores and returned values
(use-def resolved, so a temporary, a renamed local or an expanded helper do not matter), plus the must-facts
(facts.py) re-expressed as derivation terms so that `event[KEY_TYPE] == TYPE_INIT` is recognised whatever the local
holding the event is called.
"""
import ast

from . import straight as S
from .facts import facts_of
from .model import dotted
from .terms import fn_terms, walk

ANY = ("mv", "_")


def mv(name):
    return ("mv", name)


def unify(pat, t, b):
    if isinstance(pat, tuple) and len(pat) == 2 and pat[0] == "mv":
        if pat[1] == "_":
            return True
        if pat[1] in b:
            return b[pat[1]] == t
        b[pat[1]] = t
        return True
    if isinstance(pat, frozenset) or isinstance(t, frozenset):
        return pat == t
    if not isinstance(pat, tuple) or not isinstance(t, tuple):
        return pat == t
    if len(pat) != len(t):
        return False
    return all(unify(x, y, b) for x, y in zip(pat, t))


def match(pat, t, b=None):
    b = dict(b or {})
    return b if unify(pat, t, b) else None


def alternatives(t, depth=0):
    """phi / cont wrappers peeled: the plain alternatives a value can be."""
    if depth > 8 or not isinstance(t, tuple) or not t:
        return [t]
    if t[0] == "phi":
        out = []
        for x in t[1]:
            out += alternatives(x, depth + 1)
        return out
    return [t]


def contains(t, pat):
    return any(isinstance(x, tuple) and match(pat, x) is not None for x in walk(t))


class Q:
    def __init__(self, repo, fi):
        self.repo, self.fi = repo, fi
        self.ft = fn_terms(repo, fi)
        self.cfg = self.ft.cfg
        self._calls = None

    def calls(self):
        """[(call ast, cfg node id, term)] for every call expression of the function (each once)."""
        if self._calls is None:
            out, seen = [], set()
            for n in self.cfg.nodes:
                if n.stmt is None or n.ast is None:
                    continue
                root = n.ast if n.kind == "test" else n.stmt
                roots = [root]
                if n.kind in ("for", "with"):
                    from .cfg import header_exprs
                    roots = [e for e in header_exprs(n.stmt) if e is not None]
                for r in roots:
                    for c in ast.walk(r):
                        if isinstance(c, ast.Call) and id(c) not in seen:
                            seen.add(id(c))
                            try:
                                out.append((c, n.id, self.ft.term(c, n.id)))
                            except Exception:
                                pass
            self._calls = out
        return self._calls

    def find(self, pat):
        """[(call, nid, binding)] whose term (or one of its phi alternatives) matches the pattern."""
        res = []
        for c, nid, t in self.calls():
            for alt in alternatives(t):
                b = match(pat, alt)
                if b is not None:
                    res.append((c, nid, b))
                    break
        return res

    def calls_to(self, suffix):
        """Calls whose callee (dotted text or resolved key) ends with `suffix`."""
        out = []
        for c, nid, t in self.calls():
            d = dotted(c.func) or ""
            key = t[1] if t and t[0] == "call" and isinstance(t[1], str) else ""
            if d.endswith(suffix) or key.endswith(suffix) or (t and t[0] == "mcall" and t[2] == suffix):
                out.append((c, nid, t))
        return out

    def arg(self, call, nid, i, kw=None):
        if kw is not None:
            for k in call.keywords:
                if k.arg == kw:
                    return self.ft.term(k.value, nid)
        if i is not None and i < len(call.args):
            return self.ft.term(call.args[i], nid)
        return None

    def stores(self, attr):
        """[(value term, nid, stmt)] of assignments to self.<attr>"""
        out = []
        for n in self.cfg.nodes:
            if n.kind == "stmt" and isinstance(n.stmt, ast.Assign):
                for t in n.stmt.targets:
                    if isinstance(t, ast.Attribute) and isinstance(t.value, ast.Name) and t.value.id == "self" and t.attr == attr:
                        out.append((self.ft.term(n.stmt.value, n.id), n.id, n.stmt))
        return out

    def returns(self):
        return [(self.ft.term(n.stmt.value, n.id), n.id) for n in self.cfg.nodes if n.kind == "return" and n.stmt.value is not None]

    def facts_terms(self, nid):
        """Must-facts at node nid with their operands as derivation terms: {(op, term.., truth)}"""
        F = facts_of(self.fi)
        f = F.at(nid)
        out = set()
        for (k, t) in (f or ()):
            ops = []
            for part in k[1:]:
                try:
                    e = ast.parse(part.replace("__entry", ""), mode="eval").body
                    ops.append(self.ft.term(e, nid))
                except Exception:
                    ops.append(("unk", part))
            out.add((k[0],) + tuple(ops) + (t,))
        return out


def dict_pairs(t, depth=0):
    """{key term: value term} of a dict value however it is put together - a display, dict(k=v, ...), dict(<dict>), a local dict
    filled by item assignments with constant keys / update()d, `{**a, **b}` - with the list of terms merged in whose keys are not
    known (a **kwargs parameter)  -> (pairs, extras) or None.  Later entries override earlier ones, as at run time."""
    if depth > 6 or not isinstance(t, tuple) or not t:
        return None
    if t[0] == "cont":
        base = dict_pairs(t[2], depth + 1)
        if base is None:
            return None
        pairs, extras = dict(base[0]), list(base[1])
        # (the mutations are a set: item assignments to distinct constant keys commute, anything else is not understood)
        seen_keys = set()
        for m in t[3]:
            if m[0] == "update" and m[2]:
                sub = dict_pairs(m[2][0], depth + 1)
                if sub is not None and not sub[1]:
                    pairs.update(sub[0])
                else:
                    extras.append(m[2][0])
            elif m[0] == "setitem" and not m[1] and isinstance(m[2], tuple) and m[2] and m[2][0] == "const" and m[2] not in seen_keys and m[2] not in pairs:
                seen_keys.add(m[2])
                pairs[m[2]] = m[3]
            else:
                return None
        return pairs, extras
    if t[0] == "call" and t[1] == "dict":
        pairs, extras = {}, []
        if len(t[2]) > 1:
            return None
        if t[2]:
            sub = dict_pairs(t[2][0], depth + 1)
            if sub is None:
                return None
            pairs.update(sub[0])
            extras += sub[1]
        for k, v in t[3]:
            if k is None:
                sub = dict_pairs(v, depth + 1)
                if sub is not None and not sub[1]:
                    pairs.update(sub[0])
                else:
                    extras.append(v)
            else:
                pairs[("const", k)] = v
        return pairs, extras
    if t[0] != "dict":
        return None
    pairs, extras = {}, []
    for k, v in t[1]:
        if k is None or (isinstance(k, tuple) and k and k[0] == "star2"):
            sub = dict_pairs(v, depth + 1)
            if sub is not None and not sub[1]:
                pairs.update(sub[0])
            else:
                extras.append(v)
        else:
            pairs[k] = v
    return pairs, extras
