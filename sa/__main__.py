import argparse
import importlib
import json
import os
import sys

from .core import run_property


def main():
    ap = argparse.ArgumentParser(prog="check")
    ap.add_argument("prop")
    ap.add_argument("--tier", default=os.environ.get("VERIF_TIER", "quick"), choices=["quick", "thorough"])
    ap.add_argument("--replay", default=None)
    ap.add_argument("--root", default=None, help="analyse this tree instead of /repo (used by the self-test)")
    a = ap.parse_args()
    pid = a.prop.upper()
    seed = int(os.environ.get("VERIF_SEED", "0") or 0)
    try:
        mod = importlib.import_module("sa.props.%s" % pid.lower())
    except ImportError as e:
        print("ANALYSIS-ERROR property=%s no checker module: %s" % (pid, e))
        return 2
    if a.replay:
        with open(a.replay) as f:
            rec = json.load(f)
        code, rules, viols, _ = run_property(pid, mod, tier="quick", seed=seed, root=a.root, quiet=True,
                                             write_evidence=False)
        hit = [v for v in viols if v.key == rec.get("key")]
        if hit:
            print("  %s:%s %s" % (hit[0].file, hit[0].line, hit[0].message))
            print("VIOLATION property=%s replay=%s" % (pid, a.replay))
            return 1
        print("replay: construct %s no longer violates %s" % (rec.get("key"), rec.get("rule")))
        return 0 if code != 2 else 2
    code, rules, viols, _ = run_property(pid, mod, tier=a.tier, seed=seed, root=a.root, write_evidence=(a.root is None))
    if a.tier == "thorough" and code != 2:
        from . import selftest
        st = selftest.run(pid, mod, seed=seed)
        if st == 2:
            return 2
    return code


if __name__ == "__main__":
    try:
        sys.exit(main())
    except SystemExit:
        raise
    except BaseException as e:  # never let a traceback look like a violation
        import traceback
        traceback.print_exc()
        print("ANALYSIS-ERROR internal: %s" % e)
        sys.exit(2)
