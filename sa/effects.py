"""E3 - resolved calls and effect summaries for the front end.

An *effect* is a tuple-like record: kind, detail, ast node, chain (call chain through helpers).
Effects of a CFG node = the calls its expression makes (in evaluation order), expanded through
resolved same-project callees (bounded depth), followed by the stores the statement performs.
"""
import ast

from .model import dotted, unparse, short
from .cfg import calls_in_order, cfg_of, header_exprs

MAX_DEPTH = 5


class Effect:
    __slots__ = ("kind", "name", "node", "chain", "info")

    def __init__(self, kind, name, node, chain=(), **info):
        self.kind = kind
        self.name = name
        self.node = node
        self.chain = tuple(chain)
        self.info = info

    def __repr__(self):
        via = (" via " + ">".join(self.chain)) if self.chain else ""
        return "<%s %s%s L%s>" % (self.kind, self.name, via, getattr(self.node, "lineno", "?"))

    def describe(self):
        via = (" via " + ">".join(self.chain)) if self.chain else ""
        return "%s:%s%s" % (self.kind, self.name, via)


def is_file_manager(fi):
    return fi is not None and hasattr(fi, "module") and fi.module.rel.endswith("services/file_manager.py")


def _dict_ok_flag(repo, module, node):
    """content expression -> True/False/None for {'ok': <const>} literals (possibly inside pickle.dumps)."""
    if isinstance(node, ast.Call) and dotted(node.func) in ("pickle.dumps", "dumps") and node.args:
        node = node.args[0]
    if isinstance(node, ast.Dict):
        for k, v in zip(node.keys, node.values):
            if isinstance(k, ast.Constant) and k.value == "ok":
                if isinstance(v, ast.Constant):
                    return bool(v.value)
                return None
    return None


def dict_literal_of(node):
    if isinstance(node, ast.Call) and dotted(node.func) in ("pickle.dumps", "dumps") and node.args:
        node = node.args[0]
    return node if isinstance(node, ast.Dict) else None


class EffectScanner:
    def __init__(self, repo, send_names=("send_message", "_send_message")):
        self.repo = repo
        self.send_names = set(send_names)
        self._summary = {}

    # -- classification of a single call --------------------------------------
    def classify_call(self, fi, call, chain=(), depth=0):
        repo = self.repo
        effs = []
        d = dotted(call.func)
        target = repo.resolve_call(fi, call)
        last = d.split(".")[-1] if d else (call.func.attr if isinstance(call.func, ast.Attribute) else None)
        if hasattr(target, "module") and is_file_manager(target):
            effs.append(Effect("fm", target.name, call, chain, args=call.args, fn=target))
            return effs
        if last in self.send_names and d is not None and not is_file_manager(target if hasattr(target, "module") else None):
            # self.send_message(T, content, **kw) / send_message(ws, sid, T, content) / self._send_message(T, content, **kw)
            args = list(call.args)
            kw = {k.arg: k.value for k in call.keywords if k.arg}
            if d and len(d.split(".")) >= 2:
                tnode = args[0] if args else kw.get("msg_type")
                cnode = args[1] if len(args) > 1 else kw.get("content")
            else:
                tnode = args[2] if len(args) > 2 else kw.get("msg_type")
                cnode = args[3] if len(args) > 3 else kw.get("content")
            mtype = None
            if tnode is not None:
                try:
                    mtype = repo.const_value(fi.module, tnode)
                except Exception:
                    mtype = None
            effs.append(Effect("send", mtype, call, chain, type_node=tnode, content=cnode,
                               ok=_dict_ok_flag(repo, fi.module, cnode) if cnode is not None else None,
                               extra_fields=sorted(k for k in kw if k not in ("msg_type", "content"))))
            return effs
        if hasattr(target, "module"):
            # project function: expand
            name = target.qual
            if depth < MAX_DEPTH and target.qual not in chain and target.module.rel.startswith("frontend/"):
                effs.append(Effect("call", name, call, chain, fn=target))
                effs.extend(self.summary(target, chain + (target.qual,), depth + 1))
                return effs
            effs.append(Effect("call", name, call, chain, fn=target))
            return effs
        # unresolved / external
        effs.append(Effect("xcall", d or (last or "<dynamic>"), call, chain))
        return effs

    def summary(self, fi, chain=(), depth=0):
        """All effects of a function body in source order (flow-insensitive)."""
        effs = []
        for st in _stmts_in_order(fi.node):
            effs.extend(self.stmt_effects(fi, st, chain, depth))
        return effs

    def stmt_effects(self, fi, st, chain=(), depth=0, exprs=None):
        """Effects of the header of one statement (its own expressions, not nested blocks)."""
        effs = []
        for e in (exprs if exprs is not None else header_exprs(st)):
            if e is None:
                continue
            for call in calls_in_order(e):
                effs.extend(self.classify_call(fi, call, chain, depth))
        if isinstance(st, (ast.AsyncFor, ast.AsyncWith)):
            effs.append(Effect("await", type(st).__name__, st, chain))
        for e in (exprs if exprs is not None else header_exprs(st)):
            if e is None:
                continue
            for aw in _awaits(e):
                effs.append(Effect("await", short(aw.value, 60), aw, chain))
        # stores
        if exprs is None:
            targets = []
            if isinstance(st, ast.Assign):
                targets = [(t, st.value) for t in st.targets]
            elif isinstance(st, ast.AugAssign):
                targets = [(st.target, st.value)]
            elif isinstance(st, ast.AnnAssign) and st.value is not None:
                targets = [(st.target, st.value)]
            elif isinstance(st, ast.Delete):
                targets = [(t, None) for t in st.targets]
            for t, v in targets:
                for tt, vv in _flatten_target(t, v):
                    e = self._store_effect(fi, tt, vv, st, chain)
                    if e is not None:
                        effs.append(e)
        if isinstance(st, ast.Raise):
            effs.append(Effect("raise", unparse(st.exc.func) if isinstance(st.exc, ast.Call) else (unparse(st.exc) if st.exc else "reraise"), st, chain))
        return effs

    def _store_effect(self, fi, t, v, st, chain):
        if isinstance(t, ast.Attribute) and isinstance(t.value, ast.Name) and t.value.id == "self":
            return Effect("attr_store", t.attr, st, chain, value=v)
        if isinstance(t, ast.Subscript):
            base = dotted(t.value)
            key = None
            try:
                key = self.repo.const_value(fi.module, t.slice)
            except Exception:
                pass
            if base and base.startswith("self."):
                val = None
                if v is not None:
                    try:
                        val = self.repo.const_value(fi.module, v)
                    except Exception:
                        val = None
                return Effect("item_store", "%s[%r]" % (base[5:], key), st, chain, base=base[5:], key=key,
                              value=v, const=val)
        return None

    def node_effects(self, fi, cfgnode):
        if cfgnode.stmt is None or cfgnode.ast is None:
            return []
        st = cfgnode.stmt
        if cfgnode.kind in ("test",):
            return self.stmt_effects(fi, st, exprs=[cfgnode.ast])
        if cfgnode.kind == "except":
            return []
        return self.stmt_effects(fi, st)


def chain_keys(chain):
    return set(chain)


def _awaits(e):
    out = []
    for n in ast.walk(e):
        if isinstance(n, ast.Await):
            out.append(n)
    return out


def _flatten_target(t, v):
    if isinstance(t, (ast.Tuple, ast.List)):
        if isinstance(v, (ast.Tuple, ast.List)) and len(v.elts) == len(t.elts):
            for a, b in zip(t.elts, v.elts):
                yield from _flatten_target(a, b)
        else:
            for a in t.elts:
                yield from _flatten_target(a, None)
    else:
        yield t, v


def _stmts_in_order(fnode):
    """All statements of a function in source order, not descending into nested defs."""
    out = []

    def rec(stmts):
        for st in stmts:
            out.append(st)
            if isinstance(st, (ast.FunctionDef, ast.AsyncFunctionDef, ast.ClassDef)):
                continue
            for field in ("body", "orelse", "finalbody"):
                sub = getattr(st, field, None)
                if isinstance(sub, list) and sub and isinstance(sub[0], ast.stmt):
                    rec(sub)
            if isinstance(st, ast.Try):
                for h in st.handlers:
                    rec(h.body)
            if hasattr(ast, "Match") and isinstance(st, ast.Match):
                for c in st.cases:
                    rec(c.body)
    rec(fnode.body)
    return out


def stmts_in_order(fnode):
    return _stmts_in_order(fnode)
