"""Shared runner: rule results, findings, known-findings matching, evidence, exit codes."""
import json
import os
import sys
import time
import traceback

from .model import AnalysisError, load_repo, REPO

VERIF = os.path.dirname(os.path.dirname(os.path.abspath(__file__)))
KNOWN_FILE = os.path.join(VERIF, "known_findings.json")


class Finding:
    def __init__(self, rule, file, function, line, construct, message, witness=None):
        self.rule = rule
        self.file = file
        self.function = function
        self.line = line
        self.construct = construct  # stable key part: no line numbers, no raw text positions
        self.message = message
        self.witness = witness

    @property
    def key(self):
        return "%s %s::%s %s" % (self.rule, self.file, self.function, self.construct)

    def to_json(self, prop):
        return {"property": prop, "rule": self.rule, "file": self.file, "function": self.function,
                "line": self.line, "construct": self.construct, "key": self.key,
                "message": self.message, "witness": self.witness}


class Rule:
    """Accumulates what one rule analysed: instances, obligations, violations."""

    def __init__(self, rid, title):
        self.id = rid
        self.title = title
        self.instances = []  # dicts / strings describing what was analysed
        self.obligations = 0
        self.discharged = 0
        self.findings = []
        self.notes = []

    def instance(self, desc):
        self.instances.append(desc)

    def ok(self, desc=None):
        self.obligations += 1
        self.discharged += 1
        if desc is not None:
            self.instances.append(desc)

    def fail(self, file, function, line, construct, message, witness=None, desc=None):
        self.obligations += 1
        # a second construct of the same kind in the same function gets its own key (#2, #3, ...)
        base = construct
        n = sum(1 for f in self.findings if f.file == file and f.function == function and
                (f.construct == base or f.construct.startswith(base + " #")))
        if n:
            if any(f.file == file and f.function == function and f.line == line and f.construct.split(" #")[0] == base for f in self.findings):
                self.obligations -= 1
                return  # same construct reported twice (e.g. reached along two paths)
            construct = "%s #%d" % (base, n + 1)
        self.findings.append(Finding(self.id, file, function, line, construct, message, witness))
        if desc is not None:
            self.instances.append(desc)

    def fail_fn(self, fi, node, construct, message, witness=None):
        self.fail(fi.module.rel, fi.qual, getattr(node, "lineno", 0) if node is not None else fi.node.lineno,
                  construct, message, witness)

    def note(self, text):
        self.notes.append(text)

    def require(self, cond, fi_or_file, construct, message, node=None, function=None):
        """Obligatory-presence row: absence of the construct is itself the violation."""
        if cond:
            self.ok()
            return True
        if hasattr(fi_or_file, "module"):
            self.fail_fn(fi_or_file, node, construct, message)
        else:
            self.fail(fi_or_file, function or "<module>", getattr(node, "lineno", 0) if node is not None else 0,
                      construct, message)
        return False

    def to_json(self):
        return {"rule": self.id, "title": self.title, "instances": len(self.instances),
                "obligations": self.obligations, "discharged": self.discharged,
                "violations": [f.key for f in self.findings], "notes": self.notes,
                "instance_samples": self.instances[:12]}


def load_known():
    if not os.path.exists(KNOWN_FILE):
        return []
    with open(KNOWN_FILE) as f:
        return json.load(f).get("findings", [])


def run_property(prop_id, module, tier="quick", seed=0, root=None, quiet=False, write_evidence=True):
    """Run all rules of one property module.  Returns (exit_code, rules, findings)."""
    t0 = time.time()
    out = []

    def say(s):
        out.append(s)
        if not quiet:
            print(s)
            sys.stdout.flush()

    try:
        repo = load_repo(root)
        rules = module.check(repo)
    except AnalysisError as e:
        say("ANALYSIS-ERROR property=%s %s" % (prop_id, e))
        return 2, [], [], out
    except Exception as e:  # a crash of the analysis is not a verdict
        say("ANALYSIS-ERROR property=%s internal error: %s: %s" % (prop_id, type(e).__name__, e))
        if not quiet:
            traceback.print_exc()
        return 2, [], [], out

    known = [k for k in load_known() if k.get("property") == prop_id and k.get("status") == "known"]
    known_keys = {k["key"]: k for k in known}
    violations = []
    known_hits = []
    for r in rules:
        for f in r.findings:
            if f.key in known_keys:
                known_hits.append((f, known_keys[f.key]))
            else:
                violations.append(f)

    for f, k in known_hits:
        say("KNOWN-FINDING: property=%s %s [%s]" % (prop_id, k.get("what_fails", f.message), f.key))

    replay_dir = os.path.join(VERIF, "out")
    if write_evidence and os.path.isdir(replay_dir):
        for fn in os.listdir(replay_dir):
            if fn.startswith(prop_id + "-"):
                try:
                    os.unlink(os.path.join(replay_dir, fn))
                except OSError:
                    pass
    if violations:
        os.makedirs(replay_dir, exist_ok=True)
    for i, f in enumerate(violations):
        path = os.path.join(replay_dir, "%s-%d.json" % (prop_id, i))
        with open(path, "w") as fh:
            json.dump(f.to_json(prop_id), fh, indent=1)
        say("  %s:%s %s [%s] %s" % (f.file, f.line, f.function, f.rule, f.message))
        say("VIOLATION property=%s replay=%s" % (prop_id, path))

    obligations = sum(r.obligations for r in rules)
    discharged = sum(r.discharged for r in rules)
    n_inst = sum(len(r.instances) for r in rules)
    wall = time.time() - t0
    if not quiet:
        for r in rules:
            print("  [%s] %-52s instances=%-3d obligations=%-3d discharged=%-3d violations=%d" % (
                r.id, r.title[:52], len(r.instances), r.obligations, r.discharged, len(r.findings)))
        print("property=%s tier=%s obligations=%d discharged=%d known=%d violations=%d wall=%.2fs" % (
            prop_id, tier, obligations, discharged, len(known_hits), len(violations), wall))

    if write_evidence:
        samples = []
        for r in rules:
            for inst in r.instances[:3]:
                samples.append({"rule": r.id, "instance": inst})
        ev = {
            "property_id": prop_id,
            "tier": tier,
            "seed": int(seed),
            "level": "other",
            "coverage": {
                "explanation": getattr(module, "EXPLANATION", module.__doc__ or "static analysis"),
                "how_decided": "Static analysis of the parsed working tree (nothing is imported or executed): the program is first brought to a normal form "
                               "(functions / constants not in the frozen symbol table sa/known_symbols.json are expanded at their uses), then the rules are decided on "
                               "derivation terms (flow-sensitive use-def), must-facts (bounded disjunctive path conditions, parameter facts about entry values), path and "
                               "loop summaries (canonical terms unified with reference patterns) and CFG dominance / reachability - not on the spelling of statements.",
                "normal_form": list(getattr(repo, "normal_notes", [])) or ["identity: every function and constant of the analysed tree is in the frozen symbol table"],
                "obligations": obligations,
                "discharged": discharged,
                "checker_cmd": "./check %s" % prop_id,
                "trusted_base": ["CPython ast module (parser of the interpreter the repository runs on)",
                                 "the rule tables in sa/props/%s.py" % prop_id.lower(),
                                 "the engine in sa/ (resolver, normal form, CFG, dominators, term reconstruction, must-facts, path / loop summaries)",
                                 "sa/known_symbols.json (the functions the rules were written against; anything else is expanded at its call sites)"],
                "rules": [r.to_json() for r in rules],
                "rule_instances": n_inst,
                "files_parsed": len(repo.modules),
                "repo_digest": repo.digest(),
                "known_findings_matched": [f.key for f, _ in known_hits],
                "samples": samples[:40] or [{"note": "no instances"}],
                "exhaustive": True,
            },
            "assumptions": list(getattr(module, "ASSUMPTIONS", [])),
            "wall_s": round(wall, 3),
            "violations": len(violations),
        }
        os.makedirs(os.path.join(VERIF, "evidence"), exist_ok=True)
        with open(os.path.join(VERIF, "evidence", "%s.json" % prop_id), "w") as fh:
            json.dump(ev, fh, indent=1, default=str)
    return (1 if violations else 0), rules, violations, out
