"""Facts about the nine scheme packages, extracted from the source (shared by C01-C08)."""
import ast

from .model import AnalysisError, dotted, unparse, short
from .terms import fn_terms, walk, show, elem_of, proj

SUFFIXES = ["Config", "Key", "EncryptedDatabase", "Token", "Result"]
EXPECTED = ["ANSS16.Scheme3", "CGKO06.SSE1", "CGKO06.SSE2", "CJJ14.Pi2Lev", "CJJ14.PiBas", "CJJ14.PiPack",
            "CJJ14.PiPtr", "CT14.Pi", "DP17.Pi"]


class Scheme:
    def __init__(self, repo, pkg_rel, sse_name, module_name):
        self.repo = repo
        self.pkg = pkg_rel  # e.g. schemes/CJJ14/PiBas
        self.sse_name = sse_name
        self.module_name = module_name  # e.g. CJJ14.PiBas
        self.construction = repo.module(pkg_rel + "/construction.py")
        self.structures = repo.module(pkg_rel + "/structures.py")
        self.config = repo.module(pkg_rel + "/config.py")
        self.cls = self.construction.classes.get(sse_name)
        if self.cls is None:
            raise AnalysisError("construction class %s vanished from %s" % (sse_name, self.construction.rel))
        self.config_cls = self.config.classes.get(sse_name + "Config")
        self.key_cls = self.structures.classes.get(sse_name + "Key")
        self.edb_cls = self.structures.classes.get(sse_name + "EncryptedDatabase")
        self.token_cls = self.structures.classes.get(sse_name + "Token")
        self.result_cls = self.structures.classes.get(sse_name + "Result")

    @property
    def name(self):
        return self.module_name

    def method(self, name):
        fi = self.cls.methods.get(name)
        if fi is None:
            raise AnalysisError("%s.%s vanished (%s)" % (self.sse_name, name, self.construction.rel))
        return fi

    def ctor_map(self, ci):
        """parameter name -> attribute name for `self.attr = param` assignments of __init__ (tuple forms too)."""
        init = ci.methods.get("__init__")
        if init is None:
            raise AnalysisError("%s.__init__ vanished" % ci.key)
        m = {}
        for st in ast.walk(init.node):
            if isinstance(st, ast.Assign):
                for t in st.targets:
                    pairs = []
                    if isinstance(t, ast.Tuple) and isinstance(st.value, ast.Tuple) and len(t.elts) == len(st.value.elts):
                        pairs = list(zip(t.elts, st.value.elts))
                    else:
                        pairs = [(t, st.value)]
                    for a, b in pairs:
                        if isinstance(a, ast.Attribute) and isinstance(a.value, ast.Name) and a.value.id == "self" and isinstance(b, ast.Name):
                            m[b.id] = a.attr
        return init, m

    def ctor_positional(self, ci):
        """[attr name for each positional parameter of __init__ (after self)]"""
        init, m = self.ctor_map(ci)
        return [m.get(p) for p in init.params[1:]]


def discover(repo):
    out = []
    for rel, m in sorted(repo.modules.items()):
        parts = rel.split("/")
        if len(parts) == 4 and parts[0] == "schemes" and parts[3] == "__init__.py":
            for ci in m.classes.values():
                if "_sse_name" in ci.attrs and "_module_name" in ci.attrs:
                    try:
                        sse = repo.const_value(m, ci.attrs["_sse_name"])
                        mod = repo.const_value(m, ci.attrs["_module_name"])
                    except Exception:
                        raise AnalysisError("loader attributes of %s are not constants" % rel)
                    out.append(Scheme(repo, "/".join(parts[:3]), sse, mod))
    names = sorted(s.pkg.replace("schemes/", "").replace("/", ".") for s in out)
    missing = [e for e in EXPECTED if e not in names]
    if missing:
        raise AnalysisError("scheme packages vanished: %s" % missing)
    return out


# ----------------------------------------------------------------------------- container flattening
class Leaf:
    __slots__ = ("key", "value", "node", "via", "path")

    def __init__(self, key, value, node, via, path=()):
        self.key, self.value, self.node, self.via, self.path = key, value, node, via, path

    def __repr__(self):
        return "<leaf %s -> %s via %s>" % (show(self.key) if self.key else None, show(self.value), self.via)


BUILDER_HINT = ("build_from_list", "create_dictionary_from_list", "create_hash_table")


def is_builder(repo, qual):
    """A structures.py classmethod that turns a list of pairs into a dict."""
    return any(qual.endswith("." + b) for b in BUILDER_HINT)


def flatten(repo, t, via="", depth=0, node=None, out=None, seen=None):
    """Leaves (key, value) of a container-valued term, index-insensitively."""
    if out is None:
        out = []
    if seen is None:
        seen = set()
    if depth > 12 or not isinstance(t, tuple):
        return out
    k = id(t)
    tag = t[0]
    if tag == "cont":
        _, name, init, muts = t
        flatten_init(repo, init, via + name, depth + 1, out, seen)
        for mut in sorted(muts, key=lambda m: m[4]):
            kind, subs, a, b, mn = mut
            v2 = via + name + ("[..]" * len(subs))
            if kind == "append" and a:
                _value(repo, a[0], v2 + ".append", depth + 1, mn, out, seen, None)
            elif kind == "add" and a:
                _value(repo, a[0], v2 + ".add", depth + 1, mn, out, seen, None)
            elif kind == "extend" and a:
                _value(repo, elem_of(a[0]) if a[0][0] not in ("comp", "cont") else a[0], v2 + ".extend", depth + 1, mn, out, seen, None)
            elif kind == "insert" and len(a) > 1:
                _value(repo, a[1], v2 + ".insert", depth + 1, mn, out, seen, a[0])
            elif kind in ("setitem", "augitem"):
                _value(repo, b, v2 + "[k]=", depth + 1, mn, out, seen, a)
            elif kind == "update" and a:
                flatten(repo, a[0], v2 + ".update:", depth + 1, mn, out, seen)
        return out
    if tag == "call" and is_builder(repo, t[1]) and t[2]:
        flatten(repo, t[2][0], via + t[1].split(".")[-1] + ":", depth + 1, node, out, seen)
        return out
    if tag == "call" and t[1].endswith("__init__") and t[2]:
        # a structure constructor: flatten its container arguments
        for a in t[2]:
            flatten(repo, a, via, depth + 1, node, out, seen)
        return out
    if tag == "comp":
        _value(repo, t[2], via + "comp", depth + 1, node, out, seen, None)
        return out
    if tag == "phi":
        for x in t[1]:
            flatten(repo, x, via, depth + 1, node, out, seen)
        return out
    if tag == "sub":
        flatten(repo, t[1], via, depth + 1, node, out, seen)
        return out
    if tag == "elem":
        flatten(repo, t[1], via, depth + 1, node, out, seen)
        return out
    if tag in ("list", "tuple", "set"):
        for x in t[1]:
            _value(repo, x, via + "lit", depth + 1, node, out, seen, None)
        return out
    if tag == "dict":
        for kk, vv in t[1]:
            _value(repo, vv, via + "lit", depth + 1, node, out, seen, kk)
        return out
    if tag == "binop" and t[1] == "Mult":
        # [x] * n
        for side in (t[2], t[3]):
            if side[0] in ("list", "tuple"):
                for x in side[1]:
                    out.append(Leaf(None, x, node, via + "init*"))
        return out
    return out


def flatten_init(repo, init, via, depth, out, seen):
    if init[0] in ("list", "tuple", "set") and not init[1]:
        return
    if init[0] == "call" and init[1] in ("dict", "list", "set") and not init[2]:
        return
    if init[0] == "dict" and not init[1]:
        return
    flatten(repo, init, via + ":init:", depth, None, out, seen)


def _value(repo, v, via, depth, node, out, seen, key):
    """v is what is stored; if it is itself a container recurse, if a pair split it."""
    if not isinstance(v, tuple):
        return
    if v[0] in ("cont", "comp") or (v[0] == "call" and is_builder(repo, v[1])):
        flatten(repo, v, via + ">", depth + 1, node, out, seen)
        return
    if v[0] == "phi":
        for x in v[1]:
            _value(repo, x, via, depth + 1, node, out, seen, key)
        return
    if v[0] == "tuple" and len(v[1]) == 2 and key is None:
        out.append(Leaf(v[1][0], v[1][1], node, via))
        return
    if v[0] == "elem" and v[1][0] in ("cont", "comp") and key is None:
        flatten(repo, v[1], via + ">", depth + 1, node, out, seen)
        return
    out.append(Leaf(key, v, node, via))


# ----------------------------------------------------------------------------- term predicates used by several rules
def contains(t, pred):
    for x in walk(t):
        if isinstance(x, tuple) and x and isinstance(x[0], str) and pred(x):
            return True
    return False


def is_urandom(t):
    return t[0] == "call" and t[1] in ("os.urandom", "secrets.token_bytes")


def prims_in(t):
    return [x for x in walk(t) if isinstance(x, tuple) and x and x[0] == "prim"]
