"""Straight-line term reconstruction: the state transformer of a loop body / basic block.

Statements (assignments, tuple assignments, augmented assignments) are folded over an environment that maps
names to expression trees; the result tells, for every variable, how its value after the block derives from
the values before it.  No paths, no solver - plain use-def substitution for code without branches.
"""
import ast

from .model import dotted


class NotStraight(Exception):
    pass


def expr(e, env):
    E = lambda x: expr(x, env)  # noqa: E731
    if isinstance(e, ast.Constant):
        return ("const", e.value)
    if isinstance(e, ast.Name):
        return env.get(e.id, ("var", e.id))
    if isinstance(e, ast.BinOp):
        op = type(e.op).__name__
        l, r = E(e.left), E(e.right)
        if op == "BitXor":
            return xor(l, r)
        return ("op", op, l, r)
    if isinstance(e, ast.UnaryOp):
        return ("un", type(e.op).__name__, E(e.operand))
    if isinstance(e, ast.Call):
        d = dotted(e.func)
        f = ("fn", d) if d else E(e.func)
        if isinstance(e.func, ast.Attribute) and not (d and d.split(".")[0] in ("self", "math", "hmac", "hashlib", "functools", "struct", "os", "itertools", "operator", "int", "bytes", "str", "dict", "pickle", "json")):
            # method call on a value
            f = ("method", E(e.func.value), e.func.attr)
        if isinstance(e.func, ast.Name) and e.func.id in env:
            f = ("fnval", env[e.func.id])
        return ("call", f, tuple(E(a) for a in e.args), tuple(sorted((k.arg, E(k.value)) for k in e.keywords)))
    if isinstance(e, ast.Attribute):
        return ("attr", E(e.value), e.attr)
    if isinstance(e, ast.Subscript):
        if isinstance(e.slice, ast.Slice):
            s = e.slice
            return ("slice", E(e.value), E(s.lower) if s.lower else None, E(s.upper) if s.upper else None)
        return ("sub", E(e.value), E(e.slice))
    if isinstance(e, (ast.Tuple, ast.List)):
        return ("tuple", tuple(E(x) for x in e.elts))
    if isinstance(e, ast.Compare):
        return ("cmp", tuple(type(o).__name__ for o in e.ops), tuple(E(x) for x in [e.left] + list(e.comparators)))
    if isinstance(e, ast.BoolOp):
        return ("bool", type(e.op).__name__, tuple(E(v) for v in e.values))
    if isinstance(e, (ast.ListComp, ast.GeneratorExp)) and len(e.generators) == 1 and not e.generators[0].ifs and not e.generators[0].is_async:
        g = e.generators[0]
        it = E(g.iter)
        env2 = dict(env)
        try:
            _assign(g.target, ("elem", it), env2)
        except NotStraight:
            return ("comp", ast.unparse(e))
        return ("mapc", expr(e.elt, env2), it)
    if isinstance(e, ast.ListComp):
        return ("comp", ast.unparse(e))
    if isinstance(e, ast.Dict):
        return ("dict", tuple((E(k) if k is not None else ("star2",), E(v)) for k, v in zip(e.keys, e.values)))
    if isinstance(e, ast.Set):
        return ("set", tuple(E(x) for x in e.elts))
    if isinstance(e, ast.JoinedStr):
        parts = []
        for v in e.values:
            if isinstance(v, ast.Constant):
                parts.append(("const", v.value))
            elif isinstance(v, ast.FormattedValue):
                parts.append(("fmt", E(v.value), v.conversion, ast.unparse(v.format_spec) if v.format_spec is not None else None))
        return ("fstr", tuple(parts))
    if isinstance(e, ast.Yield):
        return ("yield", E(e.value) if e.value is not None else ("const", None))
    if isinstance(e, ast.IfExp):
        return ("ifexp", E(e.test), E(e.body), E(e.orelse))
    if isinstance(e, ast.Starred):
        return ("star", E(e.value))
    if isinstance(e, ast.Await):
        return ("await", E(e.value))
    return ("other", ast.unparse(e))


def xor(a, b):
    """Canonical XOR with x ^ x = 0 cancellation (multiset of operands)."""
    ops = []
    for x in (a, b):
        if x[0] == "xor":
            ops += list(x[1])
        elif x == ("zero",):
            continue
        else:
            ops.append(x)
    out = []
    for x in ops:
        if x in out:
            out.remove(x)
        else:
            out.append(x)
    if not out:
        return ("zero",)
    if len(out) == 1:
        return out[0]
    return ("xor", tuple(sorted(out, key=repr)))


def run(stmts, env=None):
    env = dict(env or {})
    for st in stmts:
        if isinstance(st, ast.Assign):
            v = expr(st.value, env)
            for t in st.targets:
                _assign(t, v, env)
        elif isinstance(st, ast.AugAssign):
            if not isinstance(st.target, ast.Name):
                raise NotStraight(ast.unparse(st))
            cur = env.get(st.target.id, ("var", st.target.id))
            op = type(st.op).__name__
            r = expr(st.value, env)
            env[st.target.id] = xor(cur, r) if op == "BitXor" else ("op", op, cur, r)
        elif isinstance(st, ast.Expr):
            continue
        elif isinstance(st, (ast.Pass, ast.Delete, ast.Assert)):
            continue   # no effect on the names tracked here (deletions of items are effects, recorded elsewhere)
        else:
            raise NotStraight(ast.unparse(st)[:60])
    return env


def _assign(t, v, env):
    if isinstance(t, ast.Name):
        env[t.id] = v
    elif isinstance(t, (ast.Tuple, ast.List)):
        if v[0] == "tuple" and len(v[1]) == len(t.elts):
            for a, b in zip(t.elts, v[1]):
                _assign(a, b, env)
        else:
            for i, a in enumerate(t.elts):
                _assign(a, ("proj", v, i), env)
    else:
        raise NotStraight(ast.unparse(t))


def subst(t, mapping):
    """Replace ('var', name) leaves."""
    if not isinstance(t, tuple):
        return t
    if t and t[0] == "var" and t[1] in mapping:
        return mapping[t[1]]
    if t and t[0] == "xor":
        out = ("zero",)
        for x in t[1]:
            out = xor(out, subst(x, mapping))
        return out
    return tuple(subst(x, mapping) if isinstance(x, tuple) else x for x in t)


def mentions(t, name):
    if not isinstance(t, tuple):
        return False
    if t and t[0] == "var" and t[1] == name:
        return True
    return any(mentions(x, name) for x in t if isinstance(x, tuple))


def show(t):
    if not isinstance(t, tuple):
        return repr(t)
    if not t:
        return "()"
    if not isinstance(t[0], str):
        return "(" + ", ".join(show(x) for x in t) + ")"
    tag = t[0]
    if tag == "var":
        return t[1]
    if tag == "const":
        return repr(t[1])
    if tag == "xor":
        return " ^ ".join(show(x) for x in t[1])
    if tag == "call":
        f = t[1]
        name = f[1] if f[0] == "fn" else ("%s.%s" % (show(f[1]), f[2]) if f[0] == "method" else show(f))
        return "%s(%s)" % (name, ", ".join([show(a) for a in t[2]] + ["%s=%s" % (k, show(v)) for k, v in t[3]]))
    if tag == "op":
        return "(%s %s %s)" % (show(t[2]), t[1], show(t[3]))
    if tag == "attr":
        return "%s.%s" % (show(t[1]), t[2])
    if tag == "tuple":
        return "(" + ", ".join(show(x) for x in t[1]) + ")"
    if tag == "slice":
        return "%s[%s:%s]" % (show(t[1]), show(t[2]) if t[2] else "", show(t[3]) if t[3] else "")
    return "%s(%s)" % (tag, ", ".join(show(x) if isinstance(x, tuple) else repr(x) for x in t[1:]))


# ----------------------------------------------------------------------------------------------------------------------
# canonical forms and pattern matching (rename-insensitive comparison of state transformers)

_MODS = ("hmac", "hashlib", "functools", "math", "struct", "os", "operator", "io", "itertools")

# parameter names of the project's library functions, by bare name (filled by model.load_repo): f(x=a, y=b) == f(a, b)
SIGNATURES = {}


def canon(t):
    """Canonical form: '+' chains flattened (associative), functools.partial applied, module attributes as ('fn', dotted),
    hmac.new / hashlib.new argument positions named."""
    if not isinstance(t, tuple) or not t:
        return t
    tag = t[0]
    if tag == "xor":
        out = ("zero",)
        for x in t[1]:
            out = xor(out, canon(x))
        return out
    if tag == "un" and t[1] == "USub":
        v = canon(t[2])
        if v[0] == "const" and isinstance(v[1], (int, float)):
            return ("const", -v[1])
        return ("un", "USub", v)
    if tag == "attr":
        inner = canon(t[1])
        if inner[0] == "var" and inner[1] in _MODS:
            return ("fn", "%s.%s" % (inner[1], t[2]))
        if inner[0] == "fn":
            return ("fn", "%s.%s" % (inner[1], t[2]))
        return ("attr", inner, t[2])
    if tag == "op" and t[1] == "Add":
        parts = []
        for side in (canon(t[2]), canon(t[3])):
            if side[0] == "cat":
                parts += list(side[1])
            elif side == ("const", b"") or side == ("const", ""):
                continue
            else:
                parts.append(side)
        if not parts:
            return ("const", b"")
        if len(parts) == 1:
            return parts[0]
        return ("cat", tuple(parts))
    if tag == "call":
        f = canon(t[1]) if isinstance(t[1], tuple) else t[1]
        args = tuple(canon(a) for a in t[2])
        kws = tuple(sorted((k, canon(v)) for k, v in t[3]))
        if f[0] == "fnval":
            f = canon(f[1])
        # applying a partial
        if f[0] == "call" and f[1] == ("fn", "functools.partial") and f[2]:
            inner = f[2][0]
            if inner[0] == "var":
                inner = ("fn", inner[1])
            return canon(("call", inner, tuple(f[2][1:]) + args, tuple(sorted(dict(list(f[3]) + list(kws)).items()))))
        if f == ("fn", "hmac.new"):
            names = ("key", "msg", "digestmod")
            named = dict(kws)
            for i, a in enumerate(args):
                if i < len(names):
                    named[names[i]] = a
            return ("call", f, (named.get("key"), named.get("msg")), (("digestmod", named.get("digestmod")),))
        if f[0] == "fn" and kws and isinstance(f[1], str) and f[1].split(".")[-1] in SIGNATURES:
            params = SIGNATURES[f[1].split(".")[-1]]
            named = dict(kws)
            out = list(args)
            for p_ in params[len(out):]:
                if p_ in named:
                    out.append(named.pop(p_))
                else:
                    break
            args, kws = tuple(out), tuple(sorted(named.items()))
        if f == ("fn", "hashlib.new"):
            named = dict(kws)
            name = args[0] if args else named.get("name")
            data = args[1] if len(args) > 1 else named.get("data")
            return ("call", f, (name,) + ((data,) if data is not None else ()), ())
        return ("call", f, args, kws)
    return tuple(canon(x) if isinstance(x, tuple) else x for x in t)


def mv(name):
    """A pattern variable."""
    return ("mv", name)


def unify(pat, t, b):
    """Match pattern against term extending binding dict `b` (pattern variables ('mv', name)); -> bool."""
    if isinstance(pat, tuple) and pat and pat[0] == "mv":
        if pat[1] in b:
            return b[pat[1]] == t
        b[pat[1]] = t
        return True
    if not isinstance(pat, tuple) or not isinstance(t, tuple):
        return pat == t
    if len(pat) != len(t):
        return False
    for x, y in zip(pat, t):
        if isinstance(x, tuple) or isinstance(y, tuple):
            if not (isinstance(x, tuple) and isinstance(y, tuple)):
                return False
            if x and x[0] == "mv":
                if not unify(x, y, b):
                    return False
                continue
            # plain tuples of terms (argument lists) and terms are both tuples: recurse
            if not unify(x, y, b):
                return False
        elif x != y:
            return False
    return True


def match_all(equations, roles, candidates, fixed=None):
    """Find an assignment role -> candidate variable such that every (pattern, term_of(assignment)) unifies.

    equations: list of (pattern, getter) where getter(assign) returns the term to match (or None).
    Returns (assignment, binding) or None."""
    import itertools
    for perm in itertools.permutations(candidates, len(roles)):
        assign = dict(zip(roles, perm))
        b = dict(fixed or {})
        for r, v in assign.items():
            b[r] = ("var", v)
        ok = True
        for pat, getter in equations:
            t = getter(assign)
            if t is None or not unify(pat, t, b):
                ok = False
                break
        if ok:
            return assign, b
    return None


def P(src, **bind):
    """Pattern from Python source: names starting with '_' are pattern variables, names given in `bind` are replaced by
    the given terms.   P("b''.join(_CH)")  P("x[_I:_I + n]", x=("var", "lst"), n=("var", "cnt"))"""
    import ast as _ast
    t = canon(expr(_ast.parse(src, mode="eval").body, {}))

    def conv(x):
        if not isinstance(x, tuple) or not x:
            return x
        if x[0] == "var" and isinstance(x[1], str):
            if x[1] in bind:
                return bind[x[1]]
            if x[1].startswith("_") and len(x[1]) > 1:
                return ("mv", x[1][1:])
        if x[0] == "fn" and isinstance(x[1], str) and x[1] in bind and bind[x[1]][0] == "var":
            return ("fn", bind[x[1]][1])
        return tuple(conv(y) if isinstance(y, tuple) else y for y in x)
    return conv(t)


def match(pat, t, b=None):
    """unify returning the binding (or None)."""
    b = dict(b or {})
    return b if unify(pat, t, b) else None
