"""Facts shared by the front-end properties (C09-C13): dispatch tables, constants, state reads."""
import ast

from .model import AnalysisError, dotted, unparse, short
from .cfg import cfg_of
from .effects import EffectScanner

SRV = "frontend/server/services/service.py"
SRV_FM = "frontend/server/services/file_manager.py"
SRV_MGR = "frontend/server/services/services_manager.py"
SRV_CONN = "frontend/server/connector.py"
SRV_COMM = "frontend/server/services/comm.py"
CLI = "frontend/client/services/service.py"
CLI_FM = "frontend/client/services/file_manager.py"
CLI_CMD = "frontend/client/commands.py"
CLI_SNH = "frontend/client/services/service_name_handler.py"
CONSTS = "frontend/common/constants.py"


def msg_types(repo):
    ci = repo.cls(CONSTS, "MsgType")
    out = {}
    for k, v in ci.attrs.items():
        if isinstance(v, ast.Constant) and isinstance(v.value, str):
            out[k] = v.value
    if not out:
        raise AnalysisError("MsgType has no string constants")
    return out


def service_states(repo, rel):
    ci = repo.cls(rel, "SERVICE_STATE")
    out = {}
    for k, v in ci.attrs.items():
        if isinstance(v, ast.Constant) and isinstance(v.value, int):
            out[k] = v.value
    return out


def dispatch_table(repo, rel, cls_name="Service", attr="recv_msg_handler"):
    """{msg type string: FunctionInfo} from `self.<attr> = {MsgType.X: self.h, ...}` or a class attribute."""
    ci = repo.cls(rel, cls_name)
    dict_node = None
    where = None
    for fi in ci.methods.values():
        for st in ast.walk(fi.node):
            if isinstance(st, ast.Assign):
                for t in st.targets:
                    if isinstance(t, ast.Attribute) and t.attr == attr and isinstance(st.value, ast.Dict):
                        dict_node, where = st.value, fi
    if dict_node is None and attr in ci.attrs and isinstance(ci.attrs[attr], ast.Dict):
        dict_node = ci.attrs[attr]
    if dict_node is None:
        raise AnalysisError("dispatch table %s.%s not found in %s" % (cls_name, attr, rel))
    table = {}
    for k, v in zip(dict_node.keys, dict_node.values):
        try:
            key = repo.const_value(ci.module, k)
        except Exception:
            raise AnalysisError("dispatch key not constant: %s" % unparse(k))
        d = dotted(v)
        name = d.split(".")[-1] if d else None
        m = repo.lookup_method(ci, name) if name else None
        if m is None:
            raise AnalysisError("dispatch handler unresolved: %s" % unparse(v))
        table[key] = m
    return table, dict_node


def is_state_read(repo, fi, expr, getter="get_current_service_state"):
    """self.get_current_service_state() or self.service_meta['state']"""
    if isinstance(expr, ast.Call) and not expr.args and not expr.keywords:
        d = dotted(expr.func)
        if d == "self." + getter:
            return True
    if isinstance(expr, ast.Subscript) and dotted(expr.value) == "self.service_meta":
        if isinstance(expr.slice, ast.Constant) and expr.slice.value == "state":
            return True
    return False


def getter_returns_state(repo, rel, cls_name="Service", getter="get_current_service_state"):
    """The getter returns self.service_meta['state'] on its main path."""
    fi = repo.func(rel, "%s.%s" % (cls_name, getter))
    rets = [n for n in ast.walk(fi.node) if isinstance(n, ast.Return) and n.value is not None]
    good = [r for r in rets if isinstance(r.value, ast.Subscript) and dotted(r.value.value) == "self.service_meta"
            and isinstance(r.value.slice, ast.Constant) and r.value.slice.value == "state"]
    return fi, rets, good


def predicate_branches(fi, predicate_name):
    """Statements of `fi` that run only when <...>.predicate_name(...) held / only when it did not.

    The test may be written either way round (`if p(): A else: B`, `if not p(): B else: A`, guard with early return): the
    sides are decided on the statement CFG - a node belongs to the 'held' side when it is reachable from the outcome edge
    that means "held" and not from the other one.  -> (held statements, not-held statements, test node) or None when no
    branch of that shape exists (compound tests are not interpreted)."""
    from .cfg import cfg_of
    cfg = cfg_of(fi.node)
    for n in cfg.nodes:
        if n.kind != "test":
            continue
        e, pol = n.ast, True
        while isinstance(e, ast.UnaryOp) and isinstance(e.op, ast.Not):
            e, pol = e.operand, not pol
        if not (isinstance(e, ast.Call) and ((dotted(e.func) or "").endswith("." + predicate_name) or dotted(e.func) == predicate_name)):
            continue
        sides = {True: set(), False: set()}
        for b, lab in cfg.succ[n.id]:
            if lab is True or lab is False:
                side = sides[lab is pol]
                side.add(b)
                side |= {x for x in cfg.reachable(b, skip_exc=True)}
        held, nheld = sides[True] - sides[False], sides[False] - sides[True]

        def stmts(ids):
            out, seen = [], set()
            for i in sorted(ids):
                st = cfg.nodes[i].stmt
                if st is not None and cfg.nodes[i].ast is not None and id(st) not in seen:
                    seen.add(id(st))
                    out.append(st)
            return out
        return stmts(held), stmts(nheld), n
    return None


def loader_state_sources(repo, init, predicate_name):
    """How Service.__init__ obtains self.service_meta: (read when the predicate held?, constant {"state": 0} when it did not?).
    Both must be the *only* stores of service_meta on their side of the predicate."""
    br = predicate_branches(init, predicate_name)
    held, nheld = (br[0], br[1]) if br is not None else ([], [])
    got_read = got_default = False

    def is_read(v):
        return isinstance(v, ast.Call) and (dotted(v.func) or "").endswith("read_service_meta")
    for s in held:
        if isinstance(s, ast.Assign) and dotted(s.targets[0]) == "self.service_meta" and is_read(s.value):
            got_read = True
    for s in nheld:
        if isinstance(s, ast.Assign) and dotted(s.targets[0]) == "self.service_meta" and isinstance(s.value, ast.Dict):
            for k, v in zip(s.value.keys, s.value.values):
                try:
                    if repo.const_value(init.module, k) == "state" and repo.const_value(init.module, v) == 0:
                        got_default = True
                except Exception:
                    pass
    for side, want in ((held, "read"), (nheld, "default")):
        for s in side:
            if isinstance(s, ast.Assign) and dotted(s.targets[0]) == "self.service_meta":
                if (want == "read") != is_read(s.value):
                    if want == "read":
                        got_read = False
                    else:
                        got_default = False
    return got_read, got_default


def writers_persist_unconditionally(repo, fm_rel, names=("write_service_config", "write_service_meta", "write_encrypted_database", "write_key")):
    """Every artifact writer of a file manager writes its data argument on every path, except the one early return for a service
    directory that does not exist.  A writer that also returns early for other reasons ("a file is already there", "nothing
    changed since my last call") silently drops an accepted upload / state change.  -> [(function, path description)] of offenders,
    and the number of writers examined."""
    from .pathsum import summarize
    from .terms import walk as _twalk
    from .contract import describe_alt
    m = repo.module(fm_rel)
    bad, n = [], 0
    for nm in names:
        fi = m.functions.get(nm)
        if fi is None or len(fi.params) < 2:
            continue
        n += 1
        data = ("var", fi.params[1])
        for ps in summarize(fi):
            if ps.exc is not None:
                continue
            wrote = any(any(x == data for x in _twalk(t)) for (_nid, t, _f) in ps.calls)
            if wrote:
                continue
            facts = list(ps.facts)
            probes = [(k, t) for (k, t) in facts if k[0] == "truth" and k[1].endswith((".exists()", ".is_dir()"))]
            others = [(k, t) for (k, t) in facts if (k, t) not in probes and not (k[0] == "is" and "None" in k[1:])]
            # the one permitted silent return: the existence probe of the service directory failed (and nothing else was tested,
            # apart from passing that outcome on as None / not None)
            missing_dir = len(probes) == 1 and probes[0][1] is False and not others
            if not missing_dir:
                bad.append((fi, describe_alt(ps.facts)))
    return bad, n


def directory_creators(repo, fm_rel):
    """Functions of a file manager, other than create_sid_folder, that create directories: [(function, call node)]."""
    m = repo.module(fm_rel)
    out = []
    for nm, fi in m.functions.items():
        if nm == "create_sid_folder":
            continue
        for c in ast.walk(fi.node):
            if isinstance(c, ast.Call):
                d = dotted(c.func) or ""
                last = c.func.attr if isinstance(c.func, ast.Attribute) else d
                if last in ("mkdir", "makedirs") or d in ("os.mkdir", "os.makedirs"):
                    out.append((fi, c))
    return out


_EXISTS_ONLY = {"FileExistsError"}


def swallowing_handlers(call):
    """Handlers of the try statements in whose *body* `call` stands that do not re-raise:
    [(handler node, caught names or ['<everything>'])]."""
    from .model import ancestors
    out = []
    child = call
    for a in ancestors(call):
        if isinstance(a, ast.Try) and any(child is st for st in a.body):
            for h in a.handlers:
                if any(isinstance(x, ast.Raise) for st in h.body for x in ast.walk(st)):
                    continue
                if h.type is None:
                    names = ["<everything>"]
                elif isinstance(h.type, ast.Tuple):
                    names = [(dotted(e) or "?").split(".")[-1] for e in h.type.elts]
                else:
                    names = [(dotted(h.type) or "?").split(".")[-1]]
                out.append((h, names))
        if isinstance(a, (ast.FunctionDef, ast.AsyncFunctionDef)):
            break
        child = a
    return out


def tolerates_existing(call):
    """the creation call stands under a handler that swallows 'already exists'"""
    return any(set(n) & {"FileExistsError", "OSError", "Exception", "BaseException", "<everything>", "EnvironmentError", "IOError"}
               for _, n in swallowing_handlers(call))


def creation_failures_swallowed(repo, fm_rel):
    """Directory creations of a file manager whose failure (other than 'already exists') is swallowed:
    [(function, call, caught names)].  Also creations wrapped in contextlib.suppress(...) of more than FileExistsError."""
    from .model import ancestors
    m = repo.module(fm_rel)
    out, seen = [], 0
    for nm, fi in m.functions.items():
        for c in ast.walk(fi.node):
            if not isinstance(c, ast.Call):
                continue
            d = dotted(c.func) or ""
            last = c.func.attr if isinstance(c.func, ast.Attribute) else d
            if not (last in ("mkdir", "makedirs") or d in ("os.mkdir", "os.makedirs")):
                continue
            seen += 1
            for h, names in swallowing_handlers(c):
                if set(names) - _EXISTS_ONLY:
                    out.append((fi, c, names))
            for a in ancestors(c):
                if isinstance(a, (ast.With, ast.AsyncWith)):
                    for it in a.items:
                        ce = it.context_expr
                        if isinstance(ce, ast.Call) and (dotted(ce.func) or "").split(".")[-1] == "suppress":
                            names = [(dotted(e) or "?").split(".")[-1] for e in ce.args]
                            if set(names) - _EXISTS_ONLY:
                                out.append((fi, c, names))
    return out, seen
