"""Length contracts of primitive calls in the scheme algorithms and the equalities they enforce.

For every call `self.config.<slot>(key, msg)` / `.Encrypt(key, msg)` / `.Decrypt(key, c)` in _Gen/_Enc/_Trap/_Search the
symbolic length of the key (and message) is compared with the length the primitive was constructed with in
_parse_config.  Identical -> discharged.  Different -> the primitive's run-time guard turns the difference into an
*enforced equality* between configuration parameters (provided the guard exists, checked by C08).
"""
import ast

from .model import dotted
from .terms import fn_terms, walk, show
from .symlen import Lengths, Poly


class Contract:
    def __init__(self, scheme, fn, line, slot, meth, role, actual, declared, node):
        self.scheme, self.fn, self.line, self.slot, self.meth = scheme, fn, line, slot, meth
        self.role, self.actual, self.declared, self.node = role, actual, declared, node

    @property
    def identical(self):
        return self.declared is None or self.actual == self.declared

    def describe(self):
        return {"scheme": self.scheme, "function": self.fn, "line": self.line, "primitive": self.slot + ("." + self.meth if self.meth else ""),
                "role": self.role, "actual": self.actual.canon(), "declared": self.declared.canon() if self.declared is not None else "unlimited"}


def collect(repo, scheme, L=None):
    L = L or Lengths(repo, scheme)
    out = []
    for fname in ("_Gen", "_Enc", "_Trap", "_Search"):
        fi = scheme.cls.methods.get(fname)
        if fi is None:
            continue
        ft = fn_terms(repo, fi)
        seen = set()
        for n in ft.cfg.nodes:
            if n.stmt is None or n.ast is None:
                continue
            from .cfg import header_exprs
            roots = [n.ast] if n.kind == "test" else [e for e in header_exprs(n.stmt) if e is not None]
            calls = [c for r_ in roots for c in ast.walk(r_)]
            for c in calls:
                if not isinstance(c, ast.Call) or id(c) in seen:
                    continue
                seen.add(id(c))
                from .props.c02 import _comp_env
                t = ft.term(c, n.id, _comp_env(ft, c, n.id))
                if t[0] != "prim" or t[2] not in (None, "Encrypt", "Decrypt"):
                    continue
                slot, meth, args = t[1], t[2], t[3]
                kw = L.cf.prim_kwargs.get(slot)
                if kw is None or len(args) < 1:
                    continue
                bitwise = "key_bit_length" in kw or "message_bit_length" in kw
                if bitwise:
                    kb = L.bits(args[0])
                    decl = L.prim_len(slot, "key_bit_length")
                    if kb is not None:
                        out.append(Contract(scheme.name, fi.qual, getattr(c, "lineno", n.line), slot, meth, "key bits", kb, decl, c))
                    if len(args) > 1:
                        mb = L.bits(args[1])
                        declm = L.prim_len(slot, "message_bit_length")
                        if mb is not None:
                            out.append(Contract(scheme.name, fi.qual, getattr(c, "lineno", n.line), slot, meth, "message bits", mb, declm, c))
                    continue
                if len(args) >= 2 or slot.startswith("hash") is False:
                    if not slot.startswith("hash") and len(args) >= 2:
                        decl = L.prim_len(slot, "key_length")
                        if decl is None and _is_cipher(kw):
                            decl = Poly.const(16)  # AESxCBC's default key_length
                        out.append(Contract(scheme.name, fi.qual, getattr(c, "lineno", n.line), slot, meth, "key", L.length(args[0]), decl, c))
                        if meth in (None, "Encrypt"):
                            declm = L.prim_len(slot, "message_length")
                            if declm is not None:
                                out.append(Contract(scheme.name, fi.qual, getattr(c, "lineno", n.line), slot, meth, "message", L.length(args[1]), declm, c))
    return out


def _is_cipher(kw):
    f = kw.get("__factory__")
    return f is not None and "get_symmetric_encryption_implementation" in show(f)


class Equalities:
    """Union-find over atoms for enforced equalities of the form atom == atom (others are recorded but not used)."""

    def __init__(self):
        self.parent = {}
        self.pairs = []

    def find(self, a):
        while self.parent.get(a, a) != a:
            a = self.parent[a]
        return a

    def add(self, p, q):
        self.pairs.append((p.canon(), q.canon()))
        ap, aq = _single_atom(p), _single_atom(q)
        if ap and aq:
            ra, rb = self.find(ap), self.find(aq)
            if ra != rb:
                self.parent[max(ra, rb)] = min(ra, rb)

    def norm(self, p):
        out = {}
        for k, v in p.m.items():
            k2 = tuple(sorted(self._norm_atom(a) for a in k))
            out[k2] = out.get(k2, 0) + v
        return Poly(out)

    def _norm_atom(self, a):
        r = self.find(a)
        if r != a:
            return r
        # atoms with structure: ENC(x) -> normalise inside textually
        for src in list(self.parent):
            if src in a:
                a = a.replace(src, self.find(src))
        return a

    def equal(self, p, q):
        return self.norm(p) == self.norm(q)


def _single_atom(p):
    if len(p.m) == 1:
        (k, v), = p.m.items()
        if v == 1 and len(k) == 1:
            return k[0]
    return None


def enforced(repo, scheme, L=None):
    L = L or Lengths(repo, scheme)
    eq = Equalities()
    cs = collect(repo, scheme, L)
    for c in cs:
        if not c.identical and c.declared is not None:
            eq.add(c.actual, c.declared)
    return eq, cs
